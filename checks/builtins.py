"""Built-in arm walker shared by C02 / C07 / C24.

Executes the real `eval_expr` arm for `Call` (resp. `MethodCall`) in
EvaluatedSubexpressions state with a built-in receiver of every kind in
`BuiltInFunctionKind` (resp. a method table entry of every `BuiltInMethodKind`)
for every argument count 0..N, each argument a symbolic `Value` template
(symbolic variant tag, 64-bit int / double payloads, opaque aggregate
payloads).  One record per feasible path: outcome, panic site, the values the
step popped and what `RestoreValues` puts back, and every unmodelled std call
reached (effect sinks).
"""
import os
import sys

sys.path.insert(0, os.path.dirname(os.path.dirname(os.path.abspath(__file__))))
import z3  # noqa: E402

from rsx.core import *  # noqa
from vlib import machine as M  # noqa

_uid = [0]


def sym_value(P, label):
    """A `Value` whose Value_ variant is symbolic."""
    variants = P.variant_names("Value_")
    tag = z3.Int(f"{label}_tag")

    def factory(variant, label=label):
        v = P.variant("Value_", variant)
        f = v["fields"]
        if variant == "Int":
            return [Int(z3.BitVec(f"{label}_int", 64))]
        if variant == "Float":
            return [Float(z3.FP(f"{label}_flt", z3.Float64()))]
        if variant == "EnumVariant":
            return {"type_name": Struct("TypeName", {"text": Opaque(f"{label}.type_name")}),
                    "runtime_type": Opaque(f"{label}.runtime_type"),
                    "variant_idx": Int(z3.BitVec(f"{label}_vidx", 64), 64, False),
                    "payload": Opaque(f"{label}.payload")}
        if f["kind"] == "named":
            return {n: Opaque(f"{label}.{n}") for n in f["names"]}
        if f["kind"] == "tuple":
            return [Opaque(f"{label}.{i}") for i in range(len(f["types"]))]
        return []
    node = SymEnum("Value_", variants, tag, factory, label=label)
    val = M.mk_value(node)
    return val, node, tag, len(variants)


def mk_pos_expr(label):
    return Rc(Struct("Expression", {"position": Opaque(f"{label}.pos"), "expr_": Opaque(f"{label}.expr_"),
                                    "id": Opaque(f"{label}.id")}, partial=True))


def mk_args(n):
    return Struct("ParenthesizedArguments", {
        "open_paren": Opaque("op"), "close_paren": Opaque("cp"),
        "arguments": Vec([Struct("ExpressionWithComma", {"expr": mk_pos_expr(f"argexpr{i}"), "comma": NONE})
                          for i in range(n)])})


def idents(vals):
    out = []
    for v in vals:
        if isinstance(v, Struct) and "0" in v.fields and isinstance(v.fields["0"], Rc):
            out.append(v.fields["0"].ident)
        elif isinstance(v, Opaque):
            out.append("opaque:" + v.label)
        else:
            out.append("obj:%d" % id(v))
    return out


def run_call(P, ctx, callee, kind, n, sandbox=False):
    """callee: 'fun' | 'method' | 'nonfun'.  Returns a record dict."""
    I = M.mk_interp(P, ctx)
    args = []
    arg_nodes = []
    for i in range(n):
        v, node, tag, nv = sym_value(P, f"arg{i}")
        ctx.assume(z3.And(tag >= 0, tag < nv))
        args.append(v)
        arg_nodes.append(node)
    sentinel = M.mk_value(Opaque("below"))
    recv_node = None
    if callee == "fun":
        recv = M.mk_value(Enum("Value_", "BuiltInFunction", [Enum("BuiltInFunctionKind", kind, []), NONE, NONE]))
    else:
        recv, recv_node, tag, nv = sym_value(P, "recv")
        ctx.assume(z3.And(tag >= 0, tag < nv))
        if callee == "nonfun":
            # a receiver that is not callable: anything but the function-like variants
            for fv in ("Fun", "Closure", "BuiltInFunction", "EnumConstructor"):
                if fv in recv_node.variants:
                    ctx.assume(tag != recv_node.variants.index(fv))
    # stack layout the dispatcher produced: receiver first, then args right-to-left (arg0 on top)
    stack = [sentinel, recv] + list(reversed(args))
    frame = M.mk_frame(values=list(stack), exprs=[], nblocks=1,
                       extra={"enclosing_name": Opaque("enclosing"), "namespace": Opaque("ns")})
    env_extra = {"enforce_sandbox": sandbox, "ticks": Int(0, 64, False)}
    meth_sym = Struct("Symbol", {"name": Struct("SymbolName", {"text": Str("m")}), "position": Opaque("mpos"),
                                 "interned_id": Opaque("miid")}, partial=True)
    if callee == "method":
        minfo = Struct("MethodInfo", {"kind": Enum("MethodKind", "BuiltinMethod", [Enum("BuiltInMethodKind", kind, []), NONE]),
                                      "receiver_sym": Opaque("rsym"), "name_sym": Opaque("nsym")}, partial=True)
        tdm = Struct("TypeDefAndMethods", {"methods": Map([(Struct("SymbolName", {"text": Str("m")}), minfo)]),
                                           "def": Opaque("typedef")}, partial=True)
        env_extra["types"] = Map([(Opaque("recv-type-name"), tdm)])
    env = M.mk_env([frame], extra=env_extra)
    paren = mk_args(n)
    if callee == "method":
        e_ = Enum("Expression_", "MethodCall", [mk_pos_expr("recvexpr"), meth_sym, paren])
    else:
        e_ = Enum("Expression_", "Call", [mk_pos_expr("recvexpr"), paren])
    expr = Rc(Struct("Expression", {"expr_": e_, "position": Opaque("pos"), "value_is_used": z3.Bool("value_is_used"),
                                    "id": Opaque("id")}, partial=True))
    st = [Enum("ExpressionState", "EvaluatedSubexpressions", [])]
    sref = Ref(lambda: st[0], lambda v: st.__setitem__(0, v))
    session = Struct("Session", {}, partial=True)
    rec = {"I": I, "callee": callee, "kind": kind, "n": n, "stack0": idents(stack), "arg_nodes": arg_nodes,
           "recv_node": recv_node, "frame": frame, "env": env, "state": st, "expr": expr}
    try:
        r = I.call_user(P.fns["eval_expr"], [env, session, expr, sref])
    finally:
        rec["std_calls"] = list(I.std_calls)
        rec["known_tags"] = {k: v for k, v in ctx.known_tags.items()}
    rec["r"] = r
    rec["stack1"] = idents(frame.fields["evalled_values"].items)
    if M.result_kind(r) == "Err":
        # what the eval loop does with the error: restore_stack_frame(env, (state, expr), &restore_values)
        rv = r.fields[0][0]
        I.call_user(P.fns["restore_stack_frame"], [env, (st[0], expr), rv.fields["0"]])
        rec["stack2"] = idents(frame.fields["evalled_values"].items)
        rec["restored_entry"] = [(id(e[1]), e[0].variant) for e in frame.fields["exprs_to_eval"].items]
        rec["restore_values"] = idents(rv.fields["0"].items)
    return rec


def arg_kinds(rec):
    """Variant known on this path for each argument (None = not inspected by the path)."""
    out = []
    for node in rec["arg_nodes"]:
        out.append(rec["known_tags"].get(node.id))
    return out


LITERALS = {"Int": "1", "Float": "1.5", "String": '"s"', "List": "[1, 2]", "Tuple": "(1, 2)", "Dict": 'Dict["k" => 1]',
            "EnumVariant": "True", "Fun": "string_repr", "Closure": "fun() { 1 }", "BuiltInFunction": "println",
            "EnumConstructor": "Some", "Struct": 'Path{ p: "/var/tmp/verif-scratch-none/sub/p" }', "Namespace": "1", None: "1"}


def literal_for(kind_name):
    return LITERALS.get(kind_name, "1")


def display_names(P, enum_name):
    """kind -> Garden-level name, by evaluating the match in the kind's `Display::fmt` (real source)."""
    from rsx.interp import Interp
    fn = P.methods.get((enum_name, "fmt"))
    names = {}
    if fn is None:
        return names
    first = fn["body"]["stmts"][0]
    for v in P.variant_names(enum_name):
        def run(ctx, v=v):
            I = Interp(P, ctx)
            I.scopes = [{"self": Enum(enum_name, v, [])}]
            I.fn.self_ty = enum_name
            return I.eval_expr(first["init"])
        try:
            res = explore(run, max_paths=10)
            if len(res) == 1 and res[0].kind == "ok" and isinstance(res[0].value, Str) and res[0].value.conc:
                names[v] = res[0].value.s
        except Exception:
            pass
    return names


def namespace_paths(P, enum_name):
    from rsx.interp import Interp
    fn = P.methods.get((enum_name, "namespace_path"))
    out = {}
    if fn is None:
        return out
    for v in P.variant_names(enum_name):
        def run(ctx, v=v):
            I = Interp(P, ctx, natives={"PathBuf::from": lambda I, a, n: I.deref(a[0])})
            return I.call_user(fn, [Enum(enum_name, v, [])], enum_name)
        try:
            res = explore(run, max_paths=10)
            if len(res) == 1 and res[0].kind == "ok" and isinstance(res[0].value, Str):
                out[v] = res[0].value.s
        except Exception:
            pass
    return out


METHOD_RECEIVER = {"Dict": 'Dict["k" => 1]', "Float": "1.5", "Int": "1", "List": "[1, 2]", "Path": 'Path{ p: "/var/tmp/verif-scratch-none/sub/p" }',
                   "String": '"abc"'}


def garden_call(P, rec, names, ns_paths, method_names=None):
    """Garden source for this path's call, argument kinds taken from the path."""
    kinds = arg_kinds(rec)
    args = ", ".join(literal_for(k) for k in kinds)
    if rec["callee"] == "fun":
        name = names.get(rec["kind"])
        if name is None:
            return None
        ns = ns_paths.get(rec["kind"], "__prelude.gdn")
        if ns == "__prelude.gdn":
            return f"{name}({args})"
        alias = "vns"
        return f'import "{ns}" as {alias}\n{alias}::{name}({args})'
    if rec["callee"] == "method":
        k = rec["kind"]
        for ty, lit in METHOD_RECEIVER.items():
            if k.startswith(ty):
                import re
                mname = re.sub(r"(?<!^)(?=[A-Z])", "_", k[len(ty):]).lower()
                return f"{lit}.{mname}({args})"
        return None
    recv_kind = rec["known_tags"].get(rec["recv_node"].id) if rec["recv_node"] is not None else None
    return f"let f = {literal_for(recv_kind)}\nf({args})"
