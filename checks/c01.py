#!/usr/bin/env python3
"""C01 — the front end never crashes on any source text (claimed for the lexer).

The real `lex` / `lex_between` (lex.rs) is executed on a symbolic source text of up to N characters, each an
arbitrary Unicode scalar value (1-4 byte encodings all arise), with the four `lazy_static!` regexes compiled by the
real regex-automata crate and simulated as byte-level NFAs.  Decided: no panic obligation is satisfiable (every
`&s[a..b]` on char boundaries, no index/arithmetic panic) and the main loop terminates within the unwinding bound
(progress).
"""
import os
import sys

sys.path.insert(0, os.path.dirname(os.path.dirname(os.path.abspath(__file__))))
import z3  # noqa: E402

from rsx.core import *  # noqa
from rsx import stdmodels  # noqa
from rsx.interp import Program  # noqa
from vlib.check import Check, run_check  # noqa
from vlib import native  # noqa
from checks import lexmodels as L  # noqa


def main():
    C = Check("C01", "front end never crashes on any source text (lexer)")
    P = Program(L.LEX_FILES + ["src/parser.rs"])
    if P.errors:
        raise Unsupported("; ".join(P.errors))
    N = 2 if C.tier == "quick" else 3

    def run_front(ctx, chars):
        """The real lexer, then - as the parser does for every token that starts with a double quote (string literals
        and import paths) - the real unescape_string on that token."""
        I, src, res = L.run_lexer(P, ctx, chars)
        ts, errs = res
        for tok in ts.fields["tokens"].items:
            text = I.deref(tok.fields["text"])
            cs = text.chars() if hasattr(text, "chars") else []
            if cs and ctx.branch(cs[0].z() == 34):
                I.call_user(P.fns["unescape_string"], [tok])
        return I, src, res
    C.bounds = {"source_chars": f"0..{N}, each any Unicode scalar value", "loop_unwinding": 24,
                "regexes": {k: L.pattern_of(Struct("LazyStatic", {"e": v["e"]})) for k, v in P.statics.items()}}
    C.assumptions += [
        "Regex::find = leftmost-first anchored match of the regex-automata Thompson NFA compiled from the pattern literal "
        "in lex.rs (all four patterns start with ^); validated each run against the real lexer through `garden verif lex`",
        "line_numbers::LinePositions::from_offset = (number of LF bytes before the offset, bytes since the last LF)",
        "char::is_whitespace = the Unicode White_Space ranges table",
        "of the parser only unescape_string (run on every string token the lexer produces) is inside the claim; the "
        "recursive descent over token vectors, the checker and the formatter are outside it",
    ]
    sites = {}
    for n in range(0, N + 1):
        chars = [z3.BitVec(f"c{i}", 32) for i in range(n)]
        cnt = {"ok": 0, "paths": 0}

        def handle(i, r, chars=chars, n=n, cnt=cnt):
            cnt["paths"] += 1
            if r.kind == "unwind":
                C.inconclusive.append(f"unwinding bound hit: {r.value}")
            if r.kind == "ok":
                cnt["ok"] += 1
                C.note_interp(r.value[0])
                return
            if r.kind != "panic":
                return
            p = r.value
            site = f"lex/{p.fn}/{p.kind}/{'slice-start' if 'start' in p.msg else 'slice-end' if 'end' in p.msg else p.msg[:30]}"

            def replay(m, chars=chars):
                s = L.model_string(m, chars)
                code, out, err = native.run_file_bytes(s.encode("utf-8"), subcmd=("check",))
                crashed = code == 101 or "panicked at" in err
                return {"reproduced": crashed, "artefact": {"source": s, "utf8_hex": s.encode("utf-8").hex()},
                        "detail": f"garden check exit={code} {err[:160]!r}"}
            C.prove(f"n{n}/path{i}:no-panic:{p.kind}@{p.line}", r.pc, False, site=site, what=f"the lexer panics: {p}", replay=replay,
                    model_desc=lambda m, chars=chars: repr(L.model_string(m, chars)))
        explore(lambda ctx: run_front(ctx, chars), max_paths=2000000, on_result=handle)
        C.paths += cnt["paths"]
        n_ok = cnt["ok"]
        C.reach(f"n{n}/lexer-returns", [z3.BoolVal(n_ok > 0)])
        C.sample({"source_chars": n, "paths": cnt["paths"], "returning_paths": n_ok})

    # translator validation: concrete sources through the encoding and through the real lexer (hook)
    from checks.tytemplates import HookSession
    h = HookSession("lex")
    samples = ["", "x", "1.5", "a+b", "\"hi\"", "// c\nx", "x // c", "#!sh\nx", "a==b", "\"ab", "-1", "1_0.0_1", "λ", "a\n\"b\nc\" d",
               "x\t y", "=>", "::", "\"\\\"\"", "\"a\\\\\" b"]
    C.rng.shuffle(samples)
    for s in samples[: (10 if C.tier == "quick" else len(samples))]:
        def runc(ctx, s=s):
            I, src, res = L.run_lexer(P, ctx, [])
            return None
        def runs(ctx, s=s):
            from rsx.interp import Interp
            I = Interp(P, ctx, natives=dict(L.LEX_NATIVES), loop_bound=64)
            I.concrete_utf8 = True
            vfs_path = Struct("VfsPathBuf", {"path": Rc(Opaque("path")), "id": Opaque("vfsid")}, partial=True)
            res = I.call_user(P.fns["lex"], [vfs_path, Str(s)])
            return I, res
        rs = explore(runs, max_paths=20)
        real = h.ask({"src": s})
        if len(rs) != 1:
            C.validation_mismatch(f"lexing {s!r}: {len(rs)} paths for a concrete source")
            continue
        r = rs[0]
        if r.kind == "panic":
            enc = {"panic": True}
        else:
            I, res = r.value
            ts = res[0].fields["tokens"].items
            enc = [(t.fields["text"].s if t.fields["text"].conc else "".join(chr(c.v) for c in t.fields["text"].chars()),
                    t.fields["position"].fields["start_offset"].v, t.fields["position"].fields["end_offset"].v) for t in ts]
        if isinstance(real, dict) and "panic" in real:
            realt = {"panic": True}
        else:
            realt = [(t["text"], t["start"], t["end"]) for t in real["tokens"]]
        if enc != realt:
            C.validation_mismatch(f"lexing {s!r}: encoding {enc}, real lexer {realt}")
        else:
            C.validated_against_impl()
    h.close()
    C.models_used |= stdmodels.USED
    C.finish()


if __name__ == "__main__":
    run_check(main)
