#!/usr/bin/env python3
"""C02 — evaluation ends in a value or a Garden error, never a crash.

Claimed as panic-freedom of each evaluation step's own code: every expression
kind, every built-in function and method (argument counts 0..N, symbolic
argument kinds, 64-bit integer payloads) and every other call receiver is
driven through the real `eval_expr` dispatcher on the operand stack the
dispatcher itself produced.  Every `panic!/unreachable!/assert!/expect/unwrap`,
index, slice and arithmetic site reached under a satisfiable path condition is
a candidate, confirmed by running the generated call on the real binary.
"""
import os
import sys

sys.path.insert(0, os.path.dirname(os.path.dirname(os.path.abspath(__file__))))
import z3  # noqa: E402

from rsx.core import *  # noqa
from rsx import stdmodels  # noqa
from vlib.check import Check, run_check  # noqa
from vlib import machine as M  # noqa
from vlib import native  # noqa
from checks import stepper as S, builtins as B  # noqa


def main():
    C = Check("C02", "evaluation ends in a value or a Garden error, never a crash")
    P = M.program()
    max_args = 3 if C.tier == "quick" else 4
    C.bounds = {"argument_counts": f"0..{max_args}", "operands": "symbolic Value_ variant per operand; Int/Float payloads "
                "symbolic 64-bit; string/list/dict payloads opaque", "steps": "all dispatcher steps of one expression (<= 6)",
                "profile": "dev (overflow checks are panic obligations)"}
    C.assumptions += M.NATIVE_NOTES + [
        "the operand stack of a step is the one the dispatcher's earlier arms produced (each sub-expression leaves one value)",
        "a built-in method only sees a receiver of the type it is declared on",
        "indices computed from opaque data are not decided (an index into an unmodelled collection is a panic candidate that "
        "counts only when a generated program - including one that calls a stale enum constructor - crashes the binary); Rust-stack overflow on deeply nested values and panics inside "
        "opaquely modelled std/third-party calls are outside the claim",
        "panic candidates on over-approximated (tainted) paths count only if the generated program crashes the real binary",
    ]
    names = B.display_names(P, "BuiltInFunctionKind")
    nsp = B.namespace_paths(P, "BuiltInFunctionKind")
    import rsx.interp as _ri
    _ri.OPAQUE_INDEX_MAY_PANIC = True
    paths = S.walk_all(C, P, max_args=max_args)
    S.check_not_encodable(C, "C02")
    n_ok = 0
    n_panic = 0
    for label, job, r in paths:
        if r.kind == "ok":
            n_ok += 1
            continue
        if r.kind != "panic":
            continue
        n_panic += 1
        p = r.value
        # rebuild enough of the record for the snippet: re-run is not needed, the path's context has the tags
        site = f"{S.job_family(label)}/{p.fn}/{p.kind}"

        def replay(_m, job=job, r=r):
            # rebuild the step by replaying this path's decisions up to the panic (main thread: reads the model)
            ctx = Ctx(r.decisions, [])
            try:
                S.run_job(P, ctx, job, max_args=max_args)
            except Panic:
                pass
            except Exception:
                pass
            rec = {"job": job, "model": _m, "known_tags": dict(ctx.known_tags),
                   "token_values": getattr(ctx, "_last_token_values", {}), "expr": getattr(ctx, "_last_expr", None),
                   "userfun_params": getattr(ctx, "_last_userfun_params", None)}
            if rec["expr"] is None:
                return {"reproduced": False, "detail": "could not rebuild the step for a snippet"}
            sns = S.snippet_alternatives(P, rec, names, nsp)
            if not sns:
                return {"reproduced": False, "detail": "no Garden snippet for this step"}

            def native_part(job=job):
                last = None
                for sn in sns:
                    src = (sn[0] + "\n" if sn[0] else "") + sn[1]
                    code, out, err = native.run_c(src)
                    crashed = code == 101 or "panicked at" in err
                    last = {"reproduced": crashed, "artefact": src, "detail": f"exit={code} stderr={err[:200]!r}"}
                    if crashed:
                        return last
                if job[0] == "expr" and job[1] in ("Assign", "AssignUpdate"):
                    # a step that finds its variable unbound only after it started: the binding can disappear between the
                    # failing sub-expression and the resumed step (`:forget_local` is in the session's command vocabulary)
                    op = "=" if job[1] == "Assign" else "+="
                    for fin in (":skip", ":replace 2", ":resume"):
                        hist = ["let uv = 1", f"uv {op} 10 / 0", ":forget_local uv", fin, "1 + 1"]
                        s_ = native.JsonSession()
                        try:
                            outs = [native.response_summary(s_.request(h, timeout=6)[0])[:2] for h in hist]
                            dead = (not s_.alive()) or any(o[0] == "none" for o in outs)
                        finally:
                            s_.close()
                        if dead:
                            return {"reproduced": True, "artefact": {"requests": hist}, "detail": f"responses={outs}"}
                        last = {"reproduced": False, "artefact": {"requests": hist}, "detail": f"responses={outs}"}
                return last
            return native_part
        C.prove_deferred(f"{label}:no-panic:{p.kind}@{p.line}", r.pc, False, site=site,
                         what=f"step {label} panics: {p}", replay=replay, soft=r.tainted,
                         model_desc=lambda m, label=label, p=p: {"step": label, "panic": str(p)})
        if n_panic <= 6:
            C.sample({"step": label, "panic_candidate": str(p), "tainted_path": r.tainted})
    C.resolve_deferred(workers=8)
    C.reach("steps-explored", [z3.BoolVal(n_ok > 0)])
    C.extra["panic_candidates"] = n_panic
    C.extra["paths_without_panic"] = n_ok
    C.sample({"paths_without_panic": n_ok, "panic_candidates": n_panic})

    # translator validation: the calls the snippets are built from behave as Garden errors natively
    for src, want in (('"abc".substring(0, 1)', "a"), ('[1, 2].get(5)', "None"), ('1 + "a"', None)):
        code, out, err = native.run_c(f"println(string_repr({src}))")
        if code == 101 or (want is not None and want not in out):
            C.validation_mismatch(f"baseline program {src!r}: exit={code} out={out[:80]!r}")
        else:
            C.validated_against_impl()
    C.models_used |= stdmodels.USED
    C.finish()


if __name__ == "__main__":
    run_check(main)
