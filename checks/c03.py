#!/usr/bin/env python3
"""C03 — operator chains are left-associative with uniform precedence.

The real `parse_expression` (parser.rs: the infix arm and its loop, `token_as_binary_op`, `TokenStream::peek/pop`,
`Position::merge`, `Expression::new`, `IdGenerator::next`) is executed on token streams `x1 op1 x2 ... xk` whose
operator tokens are symbolic (any of the operator strings of `token_as_binary_op`, read from the source), with the
abstraction that `parse_expression_no_trailing` consumes exactly one operand token and returns a non-operator
expression.  Decided for every operator assignment within the bound: the returned tree is
((x1 op1 x2) op2 x3) ... with the operators in source order, and every operator string maps to a distinct kind.
"""
import os
import re
import sys

sys.path.insert(0, os.path.dirname(os.path.dirname(os.path.abspath(__file__))))
import z3  # noqa: E402

from rsx.core import *  # noqa
from rsx import stdmodels  # noqa
from rsx.interp import Program, Interp  # noqa
from vlib.check import Check, run_check  # noqa
from vlib import native  # noqa

FILES = ["src/parser.rs", "src/parser/lex.rs", "src/parser/ast.rs", "src/parser/position.rs", "src/parser/diagnostics.rs"]


def operator_table(P):
    """operator string -> kind, read from the match in token_as_binary_op."""
    fn = P.fns["token_as_binary_op"]
    table = {}

    def scan(node):
        if isinstance(node, dict):
            if node.get("k") == "match":
                for arm in node["arms"]:
                    pat = arm["pat"]
                    if pat.get("k") == "lit" and pat["lit"].get("t") == "str":
                        body = arm["body"]
                        kind = None

                        def find_kind(b):
                            nonlocal kind
                            if isinstance(b, dict):
                                if b.get("k") == "path" and len(b["path"]["segs"]) == 2 and b["path"]["segs"][0] == "BinaryOperatorKind":
                                    kind = b["path"]["segs"][1]
                                for v in b.values():
                                    find_kind(v)
                            elif isinstance(b, list):
                                for v in b:
                                    find_kind(v)
                        find_kind(body)
                        table[pat["lit"]["v"]] = kind
            for v in node.values():
                scan(v)
        elif isinstance(node, list):
            for v in node:
                scan(v)
    scan(fn["body"])
    return table


def mk_pos(start, end):
    return Struct("Position", {"start_offset": Int(start, 64, False), "end_offset": Int(end, 64, False),
                               "line_number": Int(0, 64, False), "end_line_number": Int(0, 64, False),
                               "column": Int(start, 64, False), "end_column": Int(end, 64, False),
                               "path": Rc(Opaque("path")), "vfs_path": Opaque("vfs")})


def mk_token(text, start, width):
    return Struct("Token", {"position": mk_pos(start, start + width), "text": text, "preceding_comments": Vec([])})


def tree_str(I, e):
    e = I.strip(e)
    x = e.fields["expr_"]
    if x.variant == "BinaryOperator":
        l, op, r = x.fields
        return f"({tree_str(I, l)} {op.fields['kind'].variant} {tree_str(I, r)})"
    if x.variant == "Variable":
        return x.fields[0]
    return x.variant


def native_ast_shape(src):
    """Shape of the first top-level expression as printed by `garden reftest-ast`."""
    code, out, err = native.run_file(src, subcmd=("reftest-ast",))
    toks = []
    stack = []
    for line in out.splitlines():
        ind = len(line) - len(line.lstrip())
        t = line.strip()
        if t.endswith("BinaryOperator("):
            toks.append("(")
            stack.append(ind)
        elif t.startswith("Symbol\""):
            toks.append(t.split('"')[1])
        elif t.startswith("kind: "):
            toks.append(t[6:].rstrip(","))
        elif t in (")", "),") and stack and stack[-1] == ind:
            toks.append(")")
            stack.pop()
    s = " ".join(toks).replace("( ", "(").replace(" )", ")")
    return s, code, err


def main():
    C = Check("C03", "operator chains are left-associative with uniform precedence")
    P = Program(FILES)
    if P.errors:
        raise Unsupported("; ".join(P.errors))
    ops = operator_table(P)
    kinds = P.variant_names("BinaryOperatorKind")
    C.extra["operators"] = ops
    full_k = 3 if C.tier == "quick" else 4
    max_k = 6
    small_ops = ["-", "+", "=="]
    C.bounds = {"chain_operands": f"2..{max_k}", "operators": f"all {len(ops)} operator strings symbolic for chains up to {full_k} operands; "
                f"{small_ops} for longer chains", "operands": "one atom token each, or (chains up to 3 operands) a parenthesised atom"}
    C.assumptions += [
        "parse_expression_no_trailing on an operand token consumes exactly that token and returns an expression whose expr_ is not "
        "BinaryOperator (variables, literals and Parentheses(..)); checked concretely in translator validation",
        "operand tokens do not touch (no call/dot/namespace suffix follows an operand)",
    ]
    # every operator string maps to a distinct kind, and all kinds but none are covered
    distinct = len(set(ops.values())) == len(ops) and all(v in kinds for v in ops.values())
    C.prove("operator-table-injective", [], distinct, site="operators/not-distinct", what=f"operator strings do not map to distinct kinds: {ops}")

    def no_trailing(I, args, node):
        tokens = args[0]
        id_gen = args[1]
        t = I.call_method(tokens, "pop", [], node)
        t = I.deref(t)
        if not isinstance(t, Enum) or t.variant != "Some":
            raise Unsupported("operand token missing")
        tok = t.fields[0]
        if tok.fields["text"].s == "(":
            # a parenthesised operand: `(` atom `)` - still one non-operator expression to the infix loop
            tok = I.deref(I.call_method(tokens, "pop", [], node)).fields[0]
            I.call_method(tokens, "pop", [], node)
        nid = I.call_method(id_gen, "next", [], node)
        name = tok.fields["text"].s
        return Struct("Expression", {"position": tok.fields["position"], "expr_": Enum("Expression_", "Variable", [name]),
                                     "value_is_used": True, "id": nid})

    def run_chain(ctx, k, optable):
        opvars = [z3.Int(f"op{i}") for i in range(k - 1)]
        for v in opvars:
            ctx.assume(z3.And(v >= 0, v < len(optable)))
        toks = []
        off = 0
        # operand shapes: an atom, or (for the chains checked with all operators) a parenthesised atom - the loop may
        # look at the token that starts an operand
        shapes = [ctx.choose([True, True]) if k <= min(full_k, 3) else 0 for _ in range(k)]
        for i in range(k):
            if shapes[i]:
                toks.append(mk_token(Str("("), off, 1))
                off += 1
            toks.append(mk_token(Str(f"x{i + 1}"), off, 2))
            off += 2
            if shapes[i]:
                toks.append(mk_token(Str(")"), off, 1))
                off += 1
            off += 1
            if i < k - 1:
                toks.append(mk_token(AtomStr(opvars[i], optable), off, 2))
                off += 3
        stream = Struct("TokenStream", {"vfs_path": Opaque("vfs"), "tokens": Vec(toks), "idx": Int(0, 64, False),
                                        "trailing_comments": Vec([])})
        id_gen = Struct("IdGenerator", {"next_id": Struct("SyntaxId", {"0": Int(0, 64, False)}), "interned": Map([]),
                                        "intern_id_to_name": Map([])})
        I = Interp(P, ctx, natives={"parse_expression_no_trailing": no_trailing}, depth_bound=60)
        diags = Vec([])
        e = I.call_user(P.fns["parse_expression"], [stream, id_gen, diags])
        used_ops = [optable[ctx.known_tags.get(("atom", str(v)), None)] if False else None for v in opvars]
        return {"I": I, "e": e, "opvars": opvars, "consumed": stream.fields["idx"], "diags": len(diags.items), "shapes": shapes}

    def expected(k, opnames):
        t = "x1"
        for i in range(1, k):
            t = f"({t} {opnames[i - 1]} x{i + 1})"
        return t

    INT_OPS = {"+", "-", "*", "/", "%", "**", "&", "|"}
    CMP_OPS = {"<", "<=", ">", ">="}
    FLT_OPS = {"+.", "-.", "*.", "/."}
    BOOL_OPS = {"&&", "||"}

    def value_replay(opn, shapes=None):
        """Evaluate `x1 op1 x2 ...` and its explicit left-associative parenthesisation natively on several operand
        assignments that are well-typed under the left-associative reading."""
        pools = {"Int": [["7", "3", "2", "5", "1", "4"], ["100", "7", "3", "2", "9", "5"], ["2", "3", "2", "3", "2", "3"]],
                 "Float": [["7.5", "2.0", "0.5", "4.0", "1.5", "3.0"], ["1.0", "3.0", "7.0", "2.0", "5.0", "0.25"]],
                 "Bool": [["True", "False", "False", "True", "False", "True"], ["False", "True", "True", "False", "True", "False"],
                          ["True", "True", "False", "False", "True", "False"]],
                 "String": [['"a"', '"b"', '"c"', '"d"', '"e"', '"f"']]}
        # operand types under the left-associative reading
        first = opn[0]
        cur = "Int" if first in INT_OPS | CMP_OPS | {"==", "!="} else "Float" if first in FLT_OPS else "Bool" if first in BOOL_OPS else "String"
        types = [cur]
        for o in opn:
            need = "Int" if o in INT_OPS | CMP_OPS else "Float" if o in FLT_OPS else "Bool" if o in BOOL_OPS else "String" if o == "^" else cur
            if need != cur:
                return None
            types.append(need)
            cur = "Bool" if o in CMP_OPS | BOOL_OPS | {"==", "!="} else need
        out = {"differs": False, "runs": []}
        for variant in range(3):
            operands = []
            for i, t in enumerate(types):
                pool = pools[t][variant % len(pools[t])]
                operands.append(pool[i % len(pool)])
            shown = [f"({o})" if shapes and j < len(shapes) and shapes[j] else o for j, o in enumerate(operands)]
            chain = " ".join(x for j in range(len(operands)) for x in ([shown[j]] + ([opn[j]] if j < len(opn) else [])))
            paren = operands[0]
            for j, o in enumerate(opn):
                paren = f"({paren} {o} {operands[j + 1]})"
            r1 = native.run_c(f"println(string_repr({chain}))")
            r2 = native.run_c(f"println(string_repr({paren}))")
            a = (r1[1].strip() or r1[2].strip().splitlines()[:1])
            b = (r2[1].strip() or r2[2].strip().splitlines()[:1])
            out["runs"].append({"chain": chain, "value": str(a)[:60], "left_assoc_value": str(b)[:60]})
            if a != b:
                out["differs"] = True
                break
        return out

    wrong = []
    for k in range(2, max_k + 1):
        optable = list(ops.keys()) if k <= full_k else small_ops
        res = explore(lambda ctx: run_chain(ctx, k, optable), max_paths=300000)
        C.note_paths(res)
        n_ok = 0
        for i, r in enumerate(res):
            shapes_r = r.value["shapes"] if r.kind == "ok" else [0] * k

            def replay(m, k=k, optable=optable, shapes_r=shapes_r):
                opn = [optable[m.eval(z3.Int(f"op{j}"), model_completion=True).as_long()] for j in range(k - 1)]
                src = " ".join(x for j in range(k) for x in ([f"(x{j + 1})" if shapes_r[j] else f"x{j + 1}"] + ([opn[j]] if j < k - 1 else []))) + "\n"
                shape, code, err = native_ast_shape(src)
                want = expected(k, [ops[o] for o in opn])
                if shape == want:
                    return {"reproduced": False, "artefact": {"source": src.strip()}, "detail": f"real parser gives {shape}"}
                # The property is about evaluation: a regrouping that no operand values can observe (e.g. of an
                # associative operator) does not violate it.  Look for operands on which the chain's value differs
                # from the explicitly parenthesised left-associative reading.
                vals = value_replay(opn, shapes_r)
                if vals is None:
                    return {"reproduced": True, "artefact": {"source": src.strip()},
                            "detail": f"parsed as {shape}, left-associative is {want} (no well-typed operands to compare values)"}
                return {"reproduced": vals["differs"], "artefact": {"source": src.strip(), "values": vals},
                        "detail": f"parsed as {shape}, left-associative is {want}; chain vs parenthesised values: {vals}"}
            if r.kind == "panic":
                C.prove(f"k{k}/path{i}:no-panic", r.pc, False, site=f"infix-loop/panic/{r.value.kind}", what=f"parse_expression panics: {r.value}",
                        replay=replay)
                continue
            if r.kind != "ok":
                continue
            n_ok += 1
            v = r.value
            I = v["I"]
            C.note_interp(I)
            got = tree_str(I, v["e"])
            # operator kinds on this path, in source order, from the tree's own leaves-to-root reading of the tokens
            kinds_in_tree = re.findall(r" ([A-Za-z]+) ", got)
            # the path fixed each operator token (the match in token_as_binary_op forks on it): recover from the solver
            s = z3.Solver()
            s.add(*r.pc)
            assert s.check() == z3.sat
            m = s.model()
            opn = [ops[optable[m.eval(ov, model_completion=True).as_long()]] for ov in v["opvars"]]
            want = expected(k, opn)
            okp = got == want and v["diags"] == 0
            if okp:
                C.prove(f"k{k}/path{i}:left-associative", r.pc, True, site=f"infix-loop/grouping/{k}-operands")
            else:
                # a wrong tree: candidates are replayed below until one is observable in values (a regrouping of an
                # associative operator is not)
                wrong.append((k, i, r.pc, got, want, m, replay))
            if i == 0:
                C.sample({"operands": k, "parsed": got, "left_associative": want})
        C.reach(f"k{k}/parse-returns", [z3.BoolVal(n_ok > 0)])

    by_k = {}
    for item in wrong:
        by_k.setdefault(item[0], []).append(item)
    for k, items in by_k.items():
        verdict = None
        tried = 0
        for (_, i, pc, got, want, m, replay) in items[:60]:
            tried += 1
            rep = replay(m)
            if rep.get("reproduced"):
                verdict = (i, pc, got, want, rep)
                break
            last = (i, pc, got, want, rep)
        if verdict is None:
            i, pc, got, want, rep = last
        else:
            i, pc, got, want, rep = verdict
        C.replays += tried
        C.prove(f"k{k}/path{i}:left-associative", pc, False, site=f"infix-loop/grouping/{k}-operands",
                what=f"a chain of {k} operands parses as {got} instead of {want} ({len(items)} operator assignments affected)",
                replay=lambda mm, rep=rep: rep, model_desc=lambda mm, got=got, want=want: {"parsed": got, "left_associative": want})

    # translator validation: the abstraction and the tree reader against the real parser
    for src, want in (("a + b\n", "(a Add b)"), ("a - b * c\n", "((a Subtract b) Multiply c)"), ("(a - b) - c\n", None), ("f(x) + y.z\n", None)):
        shape, code, err = native_ast_shape(src)
        if want is not None and shape != want:
            C.validation_mismatch(f"real parser shape for {src.strip()!r} is {shape}, expected {want}")
        else:
            C.validated_against_impl()
    C.models_used |= stdmodels.USED
    C.finish()


if __name__ == "__main__":
    run_check(main)
