#!/usr/bin/env python3
"""C04 — integer and float operators follow the documented arithmetic.

Symbolically executes the real `eval_expr` dispatcher arm for `BinaryOperator`
/ `AssignUpdate` in EvaluatedSubexpressions state down into `eval_int_binop`,
`eval_float_binop`, `eval_assign_update`, with both operands fully symbolic
(64-bit bit-vectors / IEEE doubles), and asks z3 whether any operand pair makes
the step deviate from the documented arithmetic or panic.
"""
import os
import sys

sys.path.insert(0, os.path.dirname(os.path.dirname(os.path.abspath(__file__))))
import z3  # noqa: E402

from rsx.core import *  # noqa
from rsx.interp import b_and, b_or, b_not, to_z3bool  # noqa
from rsx import stdmodels  # noqa
from vlib.check import Check, run_check  # noqa
from vlib import machine as M  # noqa
from vlib import native  # noqa

MIN64 = -(1 << 63)
MAX64 = (1 << 63) - 1
U32MAX = (1 << 32) - 1

INT_OPS = {"Add": "+", "Subtract": "-", "Multiply": "*", "Divide": "/", "Modulo": "%", "Exponent": "**",
           "BitwiseAnd": "&", "BitwiseOr": "|", "LessThan": "<", "LessThanOrEqual": "<=",
           "GreaterThan": ">", "GreaterThanOrEqual": ">="}
FLOAT_OPS = {"AddFloat": "+.", "SubtractFloat": "-.", "MultiplyFloat": "*.", "DivideFloat": "/."}


def wrap64(x):
    x &= (1 << 64) - 1
    return x - (1 << 64) if x >> 63 else x


def py_spec_int(kind, a, b):
    """Reference semantics on concrete i64s -> ('exc',) | ('int', v) | ('bool', v) | ('any',)"""
    if kind == "Add":
        return ("int", wrap64(a + b))
    if kind == "Subtract":
        return ("int", wrap64(a - b))
    if kind == "Multiply":
        return ("int", wrap64(a * b))
    if kind == "Divide":
        if b == 0:
            return ("exc",)
        q = abs(a) // abs(b)
        q = q if (a < 0) == (b < 0) else -q
        if not (MIN64 <= q <= MAX64):
            return ("exc",)
        return ("int", q)
    if kind == "Modulo":
        if b == 0:
            return ("exc",)
        return ("int", a % abs(b))
    if kind == "Exponent":
        if b < 0:
            return ("exc",)
        if b > U32MAX:
            return ("any",)
        if abs(a) >= 2 and b > 64:
            return ("exc",)
        v = a ** b
        if not (MIN64 <= v <= MAX64):
            return ("exc",)
        return ("int", v)
    if kind == "BitwiseAnd":
        return ("int", a & b)
    if kind == "BitwiseOr":
        return ("int", a | b)
    if kind == "LessThan":
        return ("bool", a < b)
    if kind == "LessThanOrEqual":
        return ("bool", a <= b)
    if kind == "GreaterThan":
        return ("bool", a > b)
    if kind == "GreaterThanOrEqual":
        return ("bool", a >= b)
    raise KeyError(kind)


def z3_spec_int(kind, a, b):
    """-> (exc_cond, free_cond, kind, value): exception required under exc_cond; outcome unconstrained (but no
    panic) under free_cond; otherwise the result must equal value."""
    F = z3.BoolVal(False)
    mn = z3.BitVecVal(MIN64, 64)
    if kind == "Add":
        return F, F, "int", a + b
    if kind == "Subtract":
        return F, F, "int", a - b
    if kind == "Multiply":
        return F, F, "int", a * b
    if kind == "Divide":
        return z3.Or(b == 0, z3.And(a == mn, b == -1)), F, "int", a / b
    if kind == "Modulo":
        r = z3.SRem(a, b)
        return b == 0, F, "int", z3.If(r < 0, z3.If(b < 0, r - b, r + b), r)
    if kind == "Exponent":
        pv, pf = stdmodels.pow_uf(64)
        return z3.Or(b < 0, z3.And(b <= U32MAX, z3.Not(pf(a, b)))), b > U32MAX, "int", pv(a, b)
    if kind == "BitwiseAnd":
        return F, F, "int", a & b
    if kind == "BitwiseOr":
        return F, F, "int", a | b
    if kind == "LessThan":
        return F, F, "bool", a < b
    if kind == "LessThanOrEqual":
        return F, F, "bool", a <= b
    if kind == "GreaterThan":
        return F, F, "bool", a > b
    if kind == "GreaterThanOrEqual":
        return F, F, "bool", a >= b
    raise KeyError(kind)


def gdn_int(n):
    if n >= 0:
        return str(n)
    if n == MIN64:
        return "((0 - 9223372036854775807) - 1)"
    return f"(0 - {-n})"


def parse_native(code, out, err):
    """-> ('panic',) | ('exc',) | ('val', text) | ('other', text)"""
    if code == 101 or "panicked at" in err:
        return ("panic",)
    if code == -9:
        return ("timeout",)
    o = out.strip()
    if "Exception" in out or "Exception" in err or "Error:" in err:
        return ("exc",)
    return ("val", o)


def native_int_binop(kind, a, b, profile):
    src = f"println(string_repr({gdn_int(a)} {INT_OPS[kind]} {gdn_int(b)}))"
    code, out, err = native.run_c(src, profile=profile)
    return parse_native(code, out, err), src


def expected_matches(spec, nat):
    if spec[0] == "any":
        return nat[0] in ("exc", "val")
    if spec[0] == "exc":
        return nat[0] == "exc"
    if spec[0] == "int":
        return nat == ("val", str(spec[1]))
    if spec[0] == "bool":
        return nat == ("val", "True" if spec[1] else "False")
    return False


# -------------------------------------------------------------------- harness

def mk_expr(expr_, used=True):
    return Rc(Struct("Expression", {"position": Opaque("pos"), "expr_": expr_, "value_is_used": used,
                                    "id": Opaque("id")}, partial=True))


def run_binop_step(P, ctx, profile, kind, lhs_v, rhs_v):
    I = M.mk_interp(P, ctx, profile=profile)
    sentinel = M.v_int(Int(z3.BitVec("below", 64)))
    frame = M.mk_frame(values=[sentinel, lhs_v, rhs_v])
    env = M.mk_env([frame])
    sub = mk_expr(Opaque("sub"))
    op = Struct("BinaryOperatorSymbol", {"kind": Enum("BinaryOperatorKind", kind, []), "position": Opaque("oppos")})
    expr = mk_expr(Enum("Expression_", "BinaryOperator", [sub, op, sub]))
    state = Ref(lambda: st[0], lambda v: st.__setitem__(0, v))
    st = [Enum("ExpressionState", "EvaluatedSubexpressions", [])]
    session = Struct("Session", {}, partial=True)
    r = I.call_user(P.fns["eval_expr"], [env, session, expr, state])
    return {"r": r, "frame": frame, "I": I, "sentinel": sentinel}


def top_int(out):
    vals = out["frame"].fields["evalled_values"].items
    if len(vals) != 2 or vals[0] is not out["sentinel"]:
        return None
    inner = M.value_inner(vals[1])
    if isinstance(inner, Enum) and inner.variant == "Int":
        return inner.fields[0]
    return None


def top_bool(out):
    vals = out["frame"].fields["evalled_values"].items
    if len(vals) != 2 or vals[0] is not out["sentinel"]:
        return None
    inner = M.value_inner(vals[1])
    if isinstance(inner, Enum) and inner.variant == "EnumVariant":
        tn = inner.fields["type_name"].fields["text"]
        if tn.conc and tn.s == "Bool":
            return inner.fields["variant_idx"]
    return None


def main():
    C = Check("C04", "integer and float operators follow the documented arithmetic")
    P = M.program()
    C.assumptions += M.NATIVE_NOTES
    C.assumptions += [
        "POW lemmas (true facts about the exact power, assumed in the `**` obligations): exponents 0 and 1, bases 0, 1, -1, 2, -2 "
        "in closed form, and |base| >= 2 with exponent >= 64 does not fit - so a fast path for those cases is decided, not trusted",
        "i64::checked_pow is modelled as an uninterpreted exact power POW(base, exponent) with a representability flag; "
        "the model is validated against the real binary on boundary inputs each run",
        "message construction (format!, format_type_error, Value::display) is opaque and side-effect free",
        "float operands are assumed finite (property statement); NaN/inf operands are outside the claim",
        "dev profile = overflow/division checks as panic obligations; release profile = wrapping, division checks kept",
    ]
    C.bounds = {"int_operands": "all 2^128 pairs of i64 (64-bit bit-vectors)", "float_operands": "all finite f64 pairs (FP 11 53)",
                "exponent": "POW uninterpreted: exactness of checked_pow itself is validated concretely, not decided",
                "steps": "one evaluation step (dispatcher arm + operator function)"}
    a, b = z3.BitVec("a", 64), z3.BitVec("b", 64)
    # Release differs from dev only where dev panics on overflow, so every release-profile deviation has a
    # dev-profile panic at the same site; quick therefore decides dev only and thorough adds release.
    profiles = ["dev"] if C.tier == "quick" else ["dev", "release"]
    C.bounds["profiles"] = profiles

    def model_ab(m):
        def g(v):
            x = m.eval(v, model_completion=True).as_long()
            return wrap64(x)
        return {"a": g(a), "b": g(b)}

    # ---------------------------------------------------- integer operators
    kinds = [k for k in P.variant_names("BinaryOperatorKind") if k in INT_OPS]
    if len(kinds) < len(INT_OPS):
        C.inconclusive.append(f"operator kinds missing from BinaryOperatorKind: {set(INT_OPS) - set(kinds)}")
    for profile in profiles:
        native_profile = "debug" if profile == "dev" else "release"
        for kind in kinds:
            exc_c, free_c, rk, val = z3_spec_int(kind, a, b)
            lemmas = stdmodels.pow_lemmas(a, b) if kind == "Exponent" else []

            def run(ctx, kind=kind, profile=profile):
                return run_binop_step(P, ctx, profile, kind, M.v_int(Int(a)), M.v_int(Int(b)))
            results = explore(run)
            C.note_paths(results)
            n_ok = 0
            for i, r in enumerate(results):
                name = f"int/{profile}/{kind}/path{i}"
                site = f"int-binop/{kind}/{profile}"

                def replay(m, kind=kind, native_profile=native_profile):
                    ab = model_ab(m)
                    nat, src = native_int_binop(kind, ab["a"], ab["b"], native_profile)
                    spec = py_spec_int(kind, ab["a"], ab["b"])
                    return {"reproduced": not expected_matches(spec, nat), "artefact": src,
                            "detail": f"profile={native_profile} expected={spec} observed={nat}"}
                if r.kind == "panic":
                    C.prove(name + ":no-panic", r.pc, False, site=site + "/panic",
                            what=f"{INT_OPS[kind]} panics: {r.value}", replay=replay, model_desc=model_ab)
                    continue
                if r.kind != "ok":
                    continue
                C.note_interp(r.value["I"])
                res = r.value["r"]
                if r.tainted:
                    C.inconclusive.append(f"{name}: tainted path in a pure kernel ({r.notes[:2]})")
                    continue
                if M.result_kind(res) == "Err":
                    C.prove(name + ":exception-only-when-documented", list(r.pc) + lemmas, z3.Or(exc_c, free_c), site=site + "/spurious-exception",
                            what=f"{INT_OPS[kind]} raises an exception where a value is documented", replay=replay,
                            model_desc=model_ab)
                elif M.result_kind(res) == "Ok":
                    n_ok += 1
                    if rk == "int":
                        t = top_int(r.value)
                        claim = False if t is None else z3.Or(free_c, z3.And(z3.Not(exc_c), t.z() == val))
                    else:
                        t = top_bool(r.value)
                        claim = False if t is None else z3.Or(free_c, z3.And(z3.Not(exc_c), (t.z() == 0) == val))
                    C.prove(name + ":value", list(r.pc) + lemmas, claim, site=site + "/wrong-value",
                            what=f"{INT_OPS[kind]} returns a value that differs from the documented arithmetic",
                            replay=replay, model_desc=model_ab)
                    if profile == "dev":
                        C.sample({"op": INT_OPS[kind], "path": i, "obligation": "pc => result == spec(a,b)",
                                  "result_term": str(t)[:160]})
            C.reach(f"int/{profile}/{kind}/ok-path-exists", [z3.BoolVal(n_ok > 0)])

    # ------------------------------------------------------ float operators
    fa, fb = z3.FP("fa", z3.Float64()), z3.FP("fb", z3.Float64())
    finite = [z3.Not(z3.fpIsNaN(fa)), z3.Not(z3.fpIsInf(fa)), z3.Not(z3.fpIsNaN(fb)), z3.Not(z3.fpIsInf(fb))]
    fkinds = [k for k in P.variant_names("BinaryOperatorKind") if k in FLOAT_OPS]
    rm = z3.RNE()
    fspec = {"AddFloat": z3.fpAdd(rm, fa, fb), "SubtractFloat": z3.fpSub(rm, fa, fb),
             "MultiplyFloat": z3.fpMul(rm, fa, fb), "DivideFloat": z3.fpDiv(rm, fa, fb)}

    def model_f(m):
        import struct

        def g(v):
            bv = m.eval(z3.fpToIEEEBV(v), model_completion=True).as_long()
            return struct.unpack(">d", bv.to_bytes(8, "big"))[0]
        return {"a": g(fa), "b": g(fb)}

    def gdn_float(x):
        s = repr(float(x))
        if "inf" in s or "nan" in s:
            return None
        if "e" in s or "E" in s:
            # Garden has no exponent syntax: write the shortest round-trip digits out positionally
            import decimal
            s = format(decimal.Decimal(s), "f")
            if "." not in s:
                s += ".0"
            if len(s) > 400:
                return None
        return s if x >= 0 and not s.startswith("-") else f"(0.0 -. {s[1:]})"

    for kind in fkinds:
        def runf(ctx, kind=kind):
            for c in finite:
                ctx.assume(c)
            return run_binop_step(P, ctx, "dev", kind, M.v_float(Float(fa)), M.v_float(Float(fb)))
        results = explore(runf)
        C.note_paths(results)
        exc_c = z3.fpIsZero(fb) if kind == "DivideFloat" else z3.BoolVal(False)
        n_ok = 0
        for i, r in enumerate(results):
            name = f"float/{kind}/path{i}"
            site = f"float-binop/{kind}"

            def replayf(m, kind=kind):
                ab = model_f(m)
                la, lb = gdn_float(ab["a"]), gdn_float(ab["b"])
                if la is None or lb is None:
                    return {"reproduced": False, "detail": f"model {ab} has no plain literal form"}
                src = f"println(string_repr({la} {FLOAT_OPS[kind]} {lb}))"
                code, out, err = native.run_c(src)
                nat = parse_native(code, out, err)
                if kind == "DivideFloat" and ab["b"] == 0.0:
                    okv = nat[0] == "exc"
                else:
                    x, y = ab["a"], ab["b"]
                    exp = {"AddFloat": lambda: x + y, "SubtractFloat": lambda: x - y, "MultiplyFloat": lambda: x * y,
                           "DivideFloat": lambda: x / y}[kind]()
                    try:
                        okv = nat[0] == "val" and float(nat[1]) == exp
                    except ValueError:
                        okv = False
                return {"reproduced": not okv, "artefact": src, "detail": f"observed={nat}"}
            if r.kind == "panic":
                C.prove(name + ":no-panic", r.pc, False, site=site + "/panic", what=f"{FLOAT_OPS[kind]} panics: {r.value}",
                        replay=replayf, model_desc=model_f)
                continue
            if r.kind != "ok":
                continue
            C.note_interp(r.value["I"])
            res = r.value["r"]
            if M.result_kind(res) == "Err":
                C.prove(name + ":exception-only-when-documented", r.pc, exc_c, site=site + "/spurious-exception",
                        what=f"{FLOAT_OPS[kind]} raises an exception where a value is documented", replay=replayf,
                        model_desc=model_f)
            else:
                n_ok += 1
                vals = r.value["frame"].fields["evalled_values"].items
                inner = M.value_inner(vals[-1]) if len(vals) == 2 else None
                if inner is None or inner.variant != "Float":
                    claim = False
                else:
                    claim = z3.And(z3.Not(exc_c), inner.fields[0].v == fspec[kind])
                C.prove(name + ":value", r.pc, claim, site=site + "/wrong-value",
                        what=f"{FLOAT_OPS[kind]} differs from IEEE round-to-nearest", replay=replayf, model_desc=model_f)
                C.sample({"op": FLOAT_OPS[kind], "path": i, "obligation": "finite(a,b) & pc => result == fp.op RNE a b"})
        C.reach(f"float/{kind}/ok-path-exists", [z3.BoolVal(n_ok > 0)])

    # -------------------------------------------- x += e  vs  x = x + e
    x0, e0 = z3.BitVec("x0", 64), z3.BitVec("e0", 64)

    def model_xe(m):
        return {"x": wrap64(m.eval(x0, model_completion=True).as_long()),
                "e": wrap64(m.eval(e0, model_completion=True).as_long())}

    upd_kinds = P.variant_names("AssignUpdateKind")
    for profile in profiles:
        native_profile = "debug" if profile == "dev" else "release"
        for uk in upd_kinds:
            binop = {"Add": "Add", "Subtract": "Subtract"}.get(uk)
            if binop is None:
                C.inconclusive.append(f"unknown AssignUpdateKind {uk}")
                continue
            sym_op = "+=" if uk == "Add" else "-="

            def run_upd(ctx, uk=uk, profile=profile):
                I = M.mk_interp(P, ctx, profile=profile)
                sym_id = Opaque("interned")
                var = Struct("Symbol", {"interned_id": Int(7, 64, False), "name": Struct("SymbolName", {"text": Str("x")}, partial=True),
                                        "position": Opaque("vpos")}, partial=True)
                frame = M.mk_frame(values=[M.v_int(Int(z3.BitVec("below", 64))), M.v_int(Int(e0))])
                frame.fields["bindings"].fields["block_bindings"].items[0].fields["values"].entries.append(
                    (Int(7, 64, False), M.v_int(Int(x0))))
                env = M.mk_env([frame])
                expr = mk_expr(Enum("Expression_", "AssignUpdate", [var, Enum("AssignUpdateKind", uk, []), mk_expr(Opaque("rhs"))]))
                st = [Enum("ExpressionState", "EvaluatedSubexpressions", [])]
                state = Ref(lambda: st[0], lambda v: st.__setitem__(0, v))
                r = I.call_user(P.fns["eval_expr"], [env, Struct("Session", {}, partial=True), expr, state])
                return {"r": r, "frame": frame, "I": I}

            def replay_upd(m, sym_op=sym_op, binop=binop, native_profile=native_profile):
                xe = model_xe(m)
                src = f"let x = {gdn_int(xe['x'])}\nx {sym_op} {gdn_int(xe['e'])}\nprintln(string_repr(x))"
                code, out, err = native.run_c(src, profile=native_profile)
                nat = parse_native(code, out, err)
                spec = py_spec_int(binop, xe["x"], xe["e"])
                return {"reproduced": not expected_matches(spec, nat), "artefact": src,
                        "detail": f"profile={native_profile} expected={spec} observed={nat}"}
            results = explore(run_upd)
            C.note_paths(results)
            n_ok = 0
            for i, r in enumerate(results):
                name = f"update/{profile}/{uk}/path{i}"
                site = f"assign-update/{uk}/{profile}"
                if r.kind == "panic":
                    C.prove(name + ":no-panic", r.pc, False, site=site + "/panic",
                            what=f"`x {sym_op} e` panics where `x = x {sym_op[0]} e` wraps: {r.value}",
                            replay=replay_upd, model_desc=model_xe)
                    continue
                if r.kind != "ok":
                    continue
                C.note_interp(r.value["I"])
                if M.result_kind(r.value["r"]) != "Ok":
                    C.prove(name + ":no-exception", r.pc, False, site=site + "/exception",
                            what=f"`x {sym_op} e` raises an exception on Int operands", replay=replay_upd, model_desc=model_xe)
                    continue
                n_ok += 1
                entries = r.value["frame"].fields["bindings"].fields["block_bindings"].items[0].fields["values"].entries
                stored = M.value_inner(entries[0][1])
                want = x0 + e0 if uk == "Add" else x0 - e0
                claim = False if stored.variant != "Int" else stored.fields[0].z() == want
                C.prove(name + ":same-as-binop", r.pc, claim, site=site + "/differs-from-binop",
                        what=f"`x {sym_op} e` stores a value different from `x = x {sym_op[0]} e`", replay=replay_upd,
                        model_desc=model_xe)
            C.reach(f"update/{profile}/{uk}/ok-path-exists", [z3.BoolVal(n_ok > 0)])

    # ------------------------------------------------- translator validation
    # Concrete boundary/seeded inputs through (1) the same symbolic interpreter with constant operands,
    # (2) the real binary, (3) the python reference; all three must agree.
    bvals = [0, 1, -1, 2, -2, 3, 7, -7, 10, 63, 64, 65, MAX64, MIN64, MAX64 - 1, MIN64 + 1, U32MAX, U32MAX + 1,
             3037000499, 3037000500, -3037000500, 1 << 31, 1 << 32, (1 << 62)]
    pairs = []
    for k in kinds:
        cand = [(x, y) for x in bvals for y in bvals]
        C.rng.shuffle(cand)
        for x, y in cand[: (6 if C.tier == "quick" else 40)]:
            pairs.append((k, x, y))
    sess = None
    for k, x, y in pairs:
        def runc(ctx, k=k, x=x, y=y):
            return run_binop_step(P, ctx, "dev", k, M.v_int(Int(x)), M.v_int(Int(y)))
        rs = explore(runc)
        if len(rs) != 1 and k != "Exponent":
            C.validation_mismatch(f"{k} {x} {y}: concrete input produced {len(rs)} paths")
            continue
        r = rs[0]
        if len(rs) != 1:
            enc = ("sym",)   # POW is uninterpreted: both outcomes of checked_pow are explored
        elif r.kind == "panic":
            enc = ("panic",)
        elif M.result_kind(r.value["r"]) == "Err":
            enc = ("exc",)
        else:
            t = top_int(r.value)
            tb = top_bool(r.value)
            if t is not None and t.conc:
                enc = ("val", str(t.v))
            elif tb is not None and tb.conc:
                enc = ("val", "True" if tb.v == 0 else "False")
            else:
                enc = ("sym",)   # POW uninterpreted
        if sess is None or not sess.alive():
            sess = native.JsonSession()
        src = f"string_repr({gdn_int(x)} {INT_OPS[k]} {gdn_int(y)})"
        j, printed, raw = sess.request(src, timeout=20)
        summ = native.response_summary(j)
        if summ[0] == "ok":
            nat = ("val", (summ[1] or "").strip('"'))
        elif summ[0] == "err":
            nat = ("exc",)
        else:
            nat = ("panic",) if not sess.alive() or summ[0] == "none" else ("other", summ)
            sess.close()
            sess = None
        spec = py_spec_int(k, x, y)
        known_dev = (k == "Divide" and x == MIN64 and y == -1) or (k == "Modulo" and x == MIN64 and y == -1)
        if enc[0] != "sym" and enc != nat:
            C.validation_mismatch(f"{k}({x},{y}): encoding says {enc}, real binary says {nat}")
        elif enc[0] == "sym" and not expected_matches(spec, nat) and not known_dev:
            C.validation_mismatch(f"{k}({x},{y}): POW model/reference says {spec}, real binary says {nat}")
        else:
            C.validated_against_impl()
    if sess is not None:
        sess.close()

    # the POW lemmas are facts about the exact power: check each against Python's integers on the special cases and
    # their neighbours (a lemma that excluded a real (base, exponent, value) triple would make obligations vacuous)
    pv, pf = stdmodels.pow_uf(64)
    za, zb = z3.BitVec("la", 64), z3.BitVec("lb", 64)
    lem = z3.And(*stdmodels.pow_lemmas(za, zb))
    for base in (0, 1, -1, 2, -2, 3, -3, 7, MIN64, -MIN64 - 1):
        for e in (0, 1, 2, 3, 31, 32, 62, 63, 64, 65, 1000, U32MAX):
            exact = base ** e if (abs(base) < 2 or e <= 64) else None
            fits = exact is not None and MIN64 <= exact <= -MIN64 - 1
            s_ = z3.Solver()
            s_.add(za == base, zb == e, pf(za, zb) == fits)
            if fits:
                s_.add(pv(za, zb) == exact)
            s_.add(z3.Not(lem))
            if s_.check() != z3.unsat:
                C.validation_mismatch(f"POW lemma contradicts the exact power at base={base} exponent={e}")
            else:
                C.validated_against_impl()

    C.models_used |= stdmodels.USED
    C.finish()


if __name__ == "__main__":
    run_check(main)
