#!/usr/bin/env python3
"""C06 — block-local variables never outlive their block.

`let` writes into the innermost bindings block and lookups scan all live
blocks, so "not visible after control left the block" is "the block was
popped".  Invariant I over one frame:
    live blocks = 1 + number of pending entries whose own arm pops a block.
Part A executes every block-related (state, kind) arm of the real `eval_expr`
once and checks it preserves I (balance of pushes, pops and the poppers it
queues).  Part B executes the real `eval_break` / `eval_continue` arms from an
arbitrary I-state (any mix of pending non-popper / popper entries above the
innermost loop entry) and checks I afterwards, plus that running the loop's
continuation returns the block count to what it was before the loop.
"""
import os
import sys

sys.path.insert(0, os.path.dirname(os.path.dirname(os.path.abspath(__file__))))
import z3  # noqa: E402

from rsx.core import *  # noqa
from rsx import stdmodels  # noqa
from vlib.check import Check, run_check  # noqa
from vlib import machine as M  # noqa
from vlib import native  # noqa

BLOCK_KINDS = ["Match", "If", "While", "ForIn", "Try"]
STATES = [("NotEvaluated", None), ("PartiallyEvaluated", "WillRunBlock"), ("PartiallyEvaluated", "DoneRunBlock"),
          ("EvaluatedSubexpressions", None)]


def mk_state(st):
    name, bs = st
    if name == "PartiallyEvaluated":
        return Enum("ExpressionState", name, [Enum("BlockState", bs, [])])
    return Enum("ExpressionState", name, [])


def state_key(stv):
    if stv.variant == "PartiallyEvaluated":
        return ("PartiallyEvaluated", stv.fields[0].variant)
    return (stv.variant, None)


def tok_expr(label):
    return Rc(Struct("Expression", {"expr_": Enum("Expression_", "Invalid", []), "position": Opaque("pos"),
                                    "value_is_used": Opaque("used"), "id": Opaque("id"), "__tok": label}, partial=True))


def mk_block(ctx, label):
    n = ctx.choose([True, True])  # 0..1 expressions in the block (eval_block only distinguishes empty / non-empty)
    return Struct("Block", {"exprs": Vec([tok_expr(f"{label}.{i}") for i in range(n)]),
                            "open_brace": Opaque("ob"), "close_brace": Opaque("cb")}, partial=True)


def mk_pending_expr(kind):
    """A pending entry that is only classified (popper or not) and never executed: no shape forks."""
    blk = Struct("Block", {"exprs": Vec([]), "open_brace": Opaque("ob"), "close_brace": Opaque("cb")}, partial=True)
    sub = tok_expr("sub")
    e = {"Match": lambda: Enum("Expression_", "Match", [sub, Vec([(Struct("Pattern", {"variant_sym": Opaque("vsym"), "payload": Opaque("pl")},
                                                                             partial=True), blk)])]),
         "If": lambda: Enum("Expression_", "If", [sub, blk, NONE]),
         "While": lambda: Enum("Expression_", "While", [sub, blk]),
         "ForIn": lambda: Enum("Expression_", "ForIn", [Opaque("dest"), sub, blk]),
         "Try": lambda: Enum("Expression_", "Try", [blk, Opaque("sym"), blk])}[kind]()
    return Rc(Struct("Expression", {"expr_": e, "position": Opaque("pos"), "value_is_used": Opaque("used"), "id": Opaque("id"),
                                    "__kind": kind}, partial=True))


def mk_kind_expr(ctx, P, kind, used=None):
    """An Expression of the given kind with arbitrary (opaque) parts and real Blocks."""
    sub = tok_expr("sub")
    if kind == "Match":
        ncases = 1 + ctx.choose([True, True])
        cases = Vec([(Struct("Pattern", {"variant_sym": Opaque("vsym"), "payload": Opaque("pl")}, partial=True),
                      mk_block(ctx, f"case{i}")) for i in range(ncases)])
        e = Enum("Expression_", "Match", [sub, cases])
    elif kind == "If":
        has_else = ctx.choose([True, True])
        e = Enum("Expression_", "If", [sub, mk_block(ctx, "then"), some(mk_block(ctx, "else")) if has_else else NONE])
    elif kind == "While":
        e = Enum("Expression_", "While", [sub, mk_block(ctx, "body")])
    elif kind == "ForIn":
        e = Enum("Expression_", "ForIn", [Opaque("dest"), sub, mk_block(ctx, "body")])
    elif kind == "Try":
        e = Enum("Expression_", "Try", [mk_block(ctx, "try"), Opaque("sym"), mk_block(ctx, "catch")])
    elif kind in ("Break", "Continue", "Invalid"):
        e = Enum("Expression_", kind, [])
    else:
        v = P.variant("Expression_", kind)
        n = len(v["fields"].get("types", []))
        e = Enum("Expression_", kind, [Opaque(f"{kind}.{i}") for i in range(n)])
    return Rc(Struct("Expression", {"expr_": e, "position": Opaque("pos"),
                                    "value_is_used": Opaque("used") if used is None else used, "id": Opaque("id"),
                                    "__kind": kind}, partial=True))


def entry_class(entry, poppers):
    stv, ex = entry
    kind = ex.inner.fields.get("__kind")
    if kind is None:
        return 0  # token (NotEvaluated arbitrary expression)
    return 1 if (state_key(stv), kind) in poppers else 0


def nblocks(frame):
    return len(frame.fields["bindings"].fields["block_bindings"].items)


def run_arm(P, ctx, kind, st, base_blocks=3):
    """One execution of eval_expr on (st, kind) from a generic state. Returns observation dict."""
    I = M.mk_interp(P, ctx)
    ops = []
    I.on_call = lambda name, args: ops.append(name) if name in ("Bindings::push_block", "Bindings::pop_block") else None
    expr = mk_kind_expr(ctx, P, kind)
    base = [(mk_state(("NotEvaluated", None)), tok_expr(f"base{i}")) for i in range(2)]
    vals = [M.mk_value(Opaque(f"v{i}")) for i in range(4)]
    frame = M.mk_frame(values=vals, exprs=list(base), nblocks=base_blocks)
    env = M.mk_env([frame], extra={"ticks": Int(0, 64, False)})
    st_cell = [mk_state(st)]
    sref = Ref(lambda: st_cell[0], lambda v: st_cell.__setitem__(0, v))
    session = Struct("Session", {}, partial=True)
    r = I.call_user(P.fns["eval_expr"], [env, session, expr, sref])
    pushed = frame.fields["exprs_to_eval"].items[len(base):]
    base_intact = all(x is y for x, y in zip(frame.fields["exprs_to_eval"].items[:len(base)], base))
    return {"I": I, "r": r, "ops": ops, "pushed": pushed, "delta": nblocks(frame) - base_blocks,
            "base_intact": base_intact and len(frame.fields["exprs_to_eval"].items) >= len(base),
            "frame": frame, "expr": expr}


def main():
    C = Check("C06", "block-local variables never outlive their block")
    P = M.program()
    max_inner = 3 if C.tier == "quick" else 5
    C.bounds = {"frames": 1, "inner_entries_above_loop": f"0..{max_inner}", "block_exprs": "0..1 per block",
                "match_cases": "1..2", "steps": "one eval_expr step per obligation; break/continue + loop continuation"}
    C.assumptions += M.NATIVE_NOTES + [
        "conditions, scrutinees, iterees and positions are opaque: every branch on them is explored both ways",
        "a Break/Continue being executed has its loop's entry below it in the same frame, with no other loop entry in "
        "between (checks/loops.rs rejects break outside loops; an inner loop's entry would be the innermost loop)",
        "expression kinds outside {Match, If, While, ForIn, Try, Break, Continue} do not touch block_bindings of the "
        "current frame in states other than NotEvaluated (checked for NotEvaluated here; other states are C02's arms)",
        "error outcomes (Err) are not exits in the property's sense and are excluded from the balance obligations",
    ]

    # ---------------------------------------------------------------- Part A
    # A1: which (state, kind) arms are poppers: on every Ok path the first block operation is a pop.
    observations = {}
    for kind in BLOCK_KINDS:
        for st in STATES:
            def run(ctx, kind=kind, st=st):
                return run_arm(P, ctx, kind, st)
            res = explore(run, max_paths=60000)
            C.note_paths(res)
            C.extra.setdefault("paths_per_arm", {})[f"{kind}/{st[0]}{'/' + st[1] if st[1] else ''}"] = len(res)
            oks = [r for r in res if r.kind == "ok" and M.result_kind(r.value["r"]) == "Ok"]
            for r in oks:
                C.note_interp(r.value["I"])
            observations[(st, kind)] = oks
    poppers = set()
    for (st, kind), oks in observations.items():
        if oks and all(o.value["ops"][:1] == ["Bindings::pop_block"] for o in oks):
            poppers.add((st, kind))
        elif any(o.value["ops"][:1] == ["Bindings::pop_block"] for o in oks):
            C.inconclusive.append(f"arm ({st},{kind}) pops a block on some Ok paths only; popper classification ambiguous")
    C.extra["poppers_derived"] = sorted([f"{s[0]}{'/' + s[1] if s[1] else ''}:{k}" for s, k in poppers])
    C.reach("some-popper-arm-exists", [z3.BoolVal(len(poppers) > 0)])

    def replay_program(loop, inner_kinds, exit_stmt):
        """Program whose stack at the exit statement matches the model; probes every block's variable afterwards."""
        lines = ["let cnt = 0"]
        if loop == "While":
            lines.append("while cnt < 1 {")
        else:
            lines.append("for it in [1] {")
        lines.append("cnt = cnt + 1")
        lines.append("let z0 = 1")
        closers = []
        names = ["z0"]
        for i, k in enumerate(inner_kinds):
            if k == "If":
                lines.append("if True {")
                closers.append("}")
            elif k == "Match":
                lines.append("match Some(1) { Some(_) => {")
                closers.append("} None => {} }")
            elif k == "Try":
                lines.append("try {")
                closers.append("} catch(e) { }")
            else:
                continue
            lines.append(f"let z{i + 1} = 1")
            names.append(f"z{i + 1}")
        lines.append(exit_stmt)
        lines.extend(reversed(closers))
        lines.append("}")
        return "\n".join(lines), names

    def replay_exit(loop, inner_kinds, exit_stmt):
        def replay(_m):
            prog, names = replay_program(loop, inner_kinds, exit_stmt)
            leaked = []
            details = []
            for nm in names:
                code, out, err = native.run_c(prog + f"\nprintln(string_repr({nm}))")
                txt = out + err
                details.append(f"{nm}: {txt.strip().splitlines()[:1]}")
                if code == 101 or "panicked" in txt:
                    leaked.append(nm + "(panic)")
                elif "No such variable" not in txt and "Parse error" not in txt:
                    leaked.append(nm)
            return {"reproduced": bool(leaked), "artefact": prog + "\nprintln(string_repr(<each of " + ",".join(names) + ">))",
                    "detail": f"visible after the loop: {leaked}; {details}"}
        return replay

    # A2: balance of every block-related arm on every Ok path.
    for (st, kind), oks in observations.items():
        self_popper = 1 if (st, kind) in poppers else 0
        for i, o in enumerate(oks):
            v = o.value
            queued = sum(entry_class(e, poppers) for e in v["pushed"])
            ok_bal = v["base_intact"] and (v["delta"] == queued - self_popper)
            stn = st[0] + ("/" + st[1] if st[1] else "")
            C.prove(f"balance/{kind}/{stn}/path{i}", o.pc, ok_bal, site=f"arm-balance/{kind}/{stn}",
                    what=f"the {kind} arm in state {stn} changes the number of live blocks by {v['delta']} but queues "
                         f"{queued} popper entries (self popper={self_popper})",
                    replay=replay_exit("While" if kind != "ForIn" else "ForIn", [k for k in [kind] if k in ("If", "Match", "Try")], "cnt = cnt + 0"),
                    model_desc=lambda m, v=v: {"ops": v["ops"], "delta": v["delta"]})
            if i == 0:
                C.sample({"arm": f"{kind}/{stn}", "block_ops": v["ops"], "delta": v["delta"], "queued_poppers": queued})

    # A3: NotEvaluated arm of every expression kind is not a popper and queues no popper
    all_kinds = P.variant_names("Expression_")
    for kind in all_kinds:
        if kind in BLOCK_KINDS:
            continue

        def runk(ctx, kind=kind):
            return run_arm(P, ctx, kind, ("NotEvaluated", None))
        try:
            res = explore(runk, max_paths=300)
        except (Unsupported, UnwindExceeded) as ex:
            C.inconclusive.append(f"NotEvaluated arm of {kind} not encodable: {ex}")
            continue
        C.note_paths(res)
        for i, r in enumerate(res):
            if r.kind != "ok" or M.result_kind(r.value["r"]) != "Ok":
                continue
            v = r.value
            if kind in ("Break", "Continue"):
                continue  # Part B
            okk = v["delta"] == 0 and not v["ops"]
            C.prove(f"nonblock/{kind}/NotEvaluated/path{i}", r.pc, okk, site=f"nonblock-arm-touches-blocks/{kind}",
                    what=f"the NotEvaluated arm of {kind} pushes or pops a bindings block ({v['ops']})")

    # ---------------------------------------------------------------- Part B
    popper_classes = sorted([(st, k) for (st, k) in poppers if k not in ("While", "ForIn")])
    loop_entries = [(("PartiallyEvaluated", "DoneRunBlock"), "While"), (("PartiallyEvaluated", "DoneRunBlock"), "ForIn")]
    for le in loop_entries:
        if le not in poppers:
            C.inconclusive.append(f"loop entry {le} is not derived as a popper; the loop body block is never popped")

    def build_loop_state(ctx, loop_kind):
        base = [(mk_state(("NotEvaluated", None)), tok_expr(f"base{i}")) for i in range(2)]
        loop_expr = mk_kind_expr(ctx, P, loop_kind)
        loop_entry = (mk_state(("PartiallyEvaluated", "DoneRunBlock")), loop_expr)
        n_inner = ctx.choose([True] * (max_inner + 1))
        inner = []
        inner_kinds = []
        for i in range(n_inner):
            c = ctx.choose([True] * (1 + len(popper_classes)))
            if c == 0:
                inner.append((mk_state(("NotEvaluated", None)), tok_expr(f"inner{i}")))
                inner_kinds.append("tok")
            else:
                st, k = popper_classes[c - 1]
                inner.append((mk_state(st), mk_pending_expr(k)))
                inner_kinds.append(k)
        n_poppers = sum(1 for k in inner_kinds if k != "tok")
        pre_loop_blocks = 1
        blocks = pre_loop_blocks + 1 + n_poppers   # I: 1 + body block (loop entry is a popper) + inner poppers
        vals = [M.mk_value(Opaque("bottom"))]
        if loop_kind == "ForIn":
            vals += [M.v_int(Int(z3.BitVec("idx", 64))), M.mk_value(Opaque("iteree"))]
        frame = M.mk_frame(values=vals, exprs=base + [loop_entry] + inner, nblocks=blocks)
        return frame, base, loop_expr, inner_kinds, pre_loop_blocks

    for loop_kind in ("While", "ForIn"):
        for exit_kind in ("Break", "Continue"):
            def runb(ctx, loop_kind=loop_kind, exit_kind=exit_kind):
                frame, base, loop_expr, inner_kinds, pre = build_loop_state(ctx, loop_kind)
                I = M.mk_interp(P, ctx)
                env = M.mk_env([frame], extra={"ticks": Int(0, 64, False)})
                ex = mk_kind_expr(ctx, P, exit_kind, used=False)
                st_cell = [mk_state(("NotEvaluated", None))]
                sref = Ref(lambda: st_cell[0], lambda v: st_cell.__setitem__(0, v))
                session = Struct("Session", {}, partial=True)
                r = I.call_user(P.fns["eval_expr"], [env, session, ex, sref])
                after_exit = {"blocks": nblocks(frame), "exprs": list(frame.fields["exprs_to_eval"].items),
                              "values": len(frame.fields["evalled_values"].items)}
                # run the loop's continuation entry (the entry eval_break/eval_continue left on top)
                cont = None
                if M.result_kind(r) == "Ok" and len(after_exit["exprs"]) == len(base) + 1:
                    stv, cexpr = frame.fields["exprs_to_eval"].items.pop()
                    c_cell = [stv]
                    cref = Ref(lambda: c_cell[0], lambda v: c_cell.__setitem__(0, v))
                    if exit_kind == "Break":
                        r2 = I.call_user(P.fns["eval_expr"], [env, session, cexpr, cref])
                        cont = {"r": r2, "blocks": nblocks(frame), "exprs": len(frame.fields["exprs_to_eval"].items),
                                "same_loop": cexpr is loop_expr, "state": state_key(stv)}
                    else:
                        cont = {"r": None, "blocks": None, "same_loop": cexpr is loop_expr, "state": state_key(stv)}
                        frame.fields["exprs_to_eval"].items.append((stv, cexpr))
                return {"I": I, "r": r, "after": after_exit, "cont": cont, "inner_kinds": inner_kinds, "pre": pre,
                        "nbase": len(base), "base": base}
            res = explore(runb, max_paths=400000)
            C.note_paths(res)
            n_ok = 0
            for i, r in enumerate(res):
                stmt = "break" if exit_kind == "Break" else "continue"
                if r.kind == "panic":
                    C.prove(f"{stmt}/{loop_kind}/path{i}:no-panic", r.pc, False,
                            site=f"{stmt}/{loop_kind}/panic/{r.value.fn}:{r.value.line}",
                            what=f"`{stmt}` inside {loop_kind} panics: {r.value}",
                            replay=replay_exit(loop_kind, [], stmt))
                    continue
                if r.kind != "ok":
                    continue
                v = r.value
                C.note_interp(v["I"])
                if M.result_kind(v["r"]) != "Ok":
                    continue
                n_ok += 1
                ik = v["inner_kinds"]
                tag = f"{stmt}/{loop_kind}/inner=[{','.join(ik)}]"
                a = v["after"]
                top_ok = len(a["exprs"]) == v["nbase"] + 1 and all(x is y for x, y in zip(a["exprs"], v["base"]))
                inv_after = top_ok and a["blocks"] == 1 + sum(entry_class(e, poppers) for e in a["exprs"])
                C.prove(f"{tag}:invariant-after-{stmt}", r.pc, inv_after,
                        site=f"{stmt}/{loop_kind}/blocks-not-popped" + ("/nested" if any(k != 'tok' for k in ik) else ""),
                        what=f"after `{stmt}` the number of live blocks ({a['blocks']}) does not match the pending "
                             f"entries that will still pop one",
                        replay=replay_exit(loop_kind, ik, stmt),
                        model_desc=lambda m, ik=ik, a=a: {"inner": ik, "blocks_after": a["blocks"]})
                if exit_kind == "Break" and v["cont"] is not None and M.result_kind(v["cont"]["r"]) == "Ok":
                    c = v["cont"]
                    done = c["same_loop"] and c["blocks"] == v["pre"] and c["exprs"] == v["nbase"]
                    C.prove(f"{tag}:loop-blocks-gone-after-continuation", r.pc, done,
                            site=f"break/{loop_kind}/loop-blocks-survive" + ("/nested" if any(k != 'tok' for k in ik) else ""),
                            what="after `break` and the loop's continuation the loop's blocks are still live",
                            replay=replay_exit(loop_kind, ik, stmt),
                            model_desc=lambda m, ik=ik, c=c: {"inner": ik, "blocks_after": c["blocks"]})
                if exit_kind == "Continue" and v["cont"] is not None:
                    c = v["cont"]
                    C.prove(f"{tag}:continue-reschedules-the-loop", r.pc,
                            c["same_loop"] and c["state"] == ("PartiallyEvaluated", "DoneRunBlock"),
                            site=f"continue/{loop_kind}/wrong-entry", what="`continue` does not leave the loop's "
                            "DoneRunBlock entry on top", replay=replay_exit(loop_kind, ik, stmt))
                if i % 25 == 0:
                    C.sample({"exit": stmt, "loop": loop_kind, "inner_entries": ik, "blocks_after": a["blocks"]})
            C.reach(f"{exit_kind}/{loop_kind}/ok-path-exists", [z3.BoolVal(n_ok > 0)])

    # ---------------------------------------------------------------- Part C
    # `return`: the real Return arm (operand evaluated) from every I-state.  In a called function the frame — and every
    # block in it — is dropped by the frame exit of `eval`; at top level the frame outlives the return (a session's
    # next request runs in it), so I must hold again: nothing pending, hence exactly the top-level block live.
    def replay_return(inner_kinds):
        def replay(_m):
            lines, closers, names = [], [], []
            for i, k in enumerate(inner_kinds or ["If"]):
                if k == "Match":
                    lines.append("match Some(1) { Some(_) => {")
                    closers.append("} None => {} }")
                elif k == "Try":
                    lines.append("try {")
                    closers.append("} catch(e) { }")
                elif k in ("While",):
                    lines.append("while True {")
                    closers.append("}")
                elif k in ("ForIn",):
                    lines.append("for it in [1] {")
                    closers.append("}")
                else:
                    lines.append("if True {")
                    closers.append("}")
                lines.append(f"let zr{i} = 1")
                names.append(f"zr{i}")
            lines.append("return 5")
            prog = "\n".join(lines + list(reversed(closers)))
            s = native.JsonSession()
            try:
                j, _, _ = s.request(prog, timeout=10)
                first = native.response_summary(j)[:2]
                leaked = []
                for nm in names:
                    j, _, _ = s.request(nm, timeout=10)
                    r = native.response_summary(j)[:2]
                    if not (r[0] == "err" and "No such variable" in r[1]):
                        leaked.append((nm, r))
                return {"reproduced": bool(leaked) and first[0] == "ok", "artefact": {"requests": [prog] + names},
                        "detail": f"first={first} visible after the return: {leaked}"}
            finally:
                s.close()
        return replay

    all_popper_classes = sorted(poppers)

    max_inner_c = min(max_inner, 4)

    def runc(ctx):
        n_inner = ctx.choose([True] * (max_inner_c + 1))
        inner, inner_kinds = [], []
        for i in range(n_inner):
            c = ctx.choose([True] * (1 + len(all_popper_classes)))
            if c == 0:
                inner.append((mk_state(("NotEvaluated", None)), tok_expr(f"inner{i}")))
                inner_kinds.append("tok")
            else:
                st, k = all_popper_classes[c - 1]
                inner.append((mk_state(st), mk_pending_expr(k)))
                inner_kinds.append(k)
        blocks = 1 + sum(1 for k in inner_kinds if k != "tok")
        frame = M.mk_frame(values=[M.mk_value(Opaque("bottom")), M.mk_value(Opaque("retval"))], exprs=inner, nblocks=blocks)
        I = M.mk_interp(P, ctx)
        env = M.mk_env([frame], extra={"ticks": Int(0, 64, False)})
        ex = mk_kind_expr(ctx, P, "Return", used=False)
        st_cell = [mk_state(("EvaluatedSubexpressions", None))]
        sref = Ref(lambda: st_cell[0], lambda v: st_cell.__setitem__(0, v))
        r = I.call_user(P.fns["eval_expr"], [env, Struct("Session", {}, partial=True), ex, sref])
        return {"I": I, "r": r, "blocks": nblocks(frame), "exprs": list(frame.fields["exprs_to_eval"].items),
                "next": len(frame.fields["bindings_next_block"].items), "inner_kinds": inner_kinds}
    try:
        resc = explore(runc, max_paths=120000)
    except (Unsupported, UnwindExceeded) as ex:
        resc = []
        C.inconclusive.append(f"Return arm not encodable: {ex}")
    C.note_paths(resc)
    n_ret = 0
    for i, r in enumerate(resc):
        if r.kind == "panic":
            C.prove(f"return/path{i}:no-panic", r.pc, False, site=f"return/panic/{r.value.fn}:{r.value.line}",
                    what=f"`return` panics: {r.value}", replay=replay_return([]))
            continue
        if r.kind != "ok" or M.result_kind(r.value["r"]) != "Ok":
            continue
        v = r.value
        C.note_interp(v["I"])
        n_ret += 1
        ik = [k for k in v["inner_kinds"] if k != "tok"]
        inv_after = v["blocks"] == 1 + sum(entry_class(e, poppers) for e in v["exprs"]) and v["next"] == 0
        C.prove(f"return/toplevel/inner=[{','.join(v['inner_kinds'])}]:invariant-after-return", r.pc, inv_after,
                site="return/toplevel/blocks-survive" + ("/nested" if len(ik) > 1 else ""),
                what=f"after `return` in the top-level frame {v['blocks']} blocks are live but {len(v['exprs'])} entries are pending: "
                     "the locals of the blocks that were left stay visible to the session's next request",
                replay=replay_return(ik), model_desc=lambda m, v=v: {"inner": v["inner_kinds"], "blocks_after": v["blocks"]})
    C.reach("return/ok-path-exists", [z3.BoolVal(n_ret > 0)])

    # translator validation: programs the replay builder produces, on behaviours that are not in dispute
    for loop in ("While", "ForIn"):
        prog, names = replay_program(loop, ["If", "Match"], "cnt = cnt + 0")
        code, out, err = native.run_c(prog + "\nprintln(string_repr(cnt))")
        if out.strip() != "1":
            C.validation_mismatch(f"replay builder program does not run as expected: {out!r} {err[:200]!r}")
        else:
            C.validated_against_impl()
        code, out, err = native.run_c(prog + "\nprintln(string_repr(z1))")
        if "No such variable" not in out + err:
            C.validation_mismatch(f"normally-completed block leaks z1: {out!r}")
        else:
            C.validated_against_impl()

    C.models_used |= stdmodels.USED
    C.finish()


if __name__ == "__main__":
    run_check(main)
