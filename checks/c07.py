#!/usr/bin/env python3
"""C07 — resuming after a runtime error reproduces the same error.

Every expression kind, every built-in function and method (argument counts
0..N) and non-function call receivers are driven through the real `eval_expr`
dispatcher with symbolic operand values.  For every feasible path on which a
step returns `Err((RestoreValues(..), _))` the real `restore_stack_frame` is
applied and the step is executed again.  Decided per path: the operand stack
after the restore is exactly the stack before the failing step (same values,
same order); the resumed step fails again with the same error (same message
operands, same position) and leaves the same stack (stable under repetition).
"""
import os
import sys

sys.path.insert(0, os.path.dirname(os.path.dirname(os.path.abspath(__file__))))
import z3  # noqa: E402

from rsx.core import *  # noqa
from rsx import stdmodels  # noqa
from vlib.check import Check, run_check  # noqa
from vlib import machine as M  # noqa
from vlib import native  # noqa
from checks import stepper as S, builtins as B  # noqa


def native_resume(prelude, text, resumes=2):
    s = native.JsonSession()
    try:
        if prelude:
            s.request(prelude, timeout=8)
        outs = []
        j, _, _ = s.request(text, timeout=8)
        outs.append(native.response_summary(j))
        for _ in range(resumes):
            if outs[-1][0] != "err":
                break
            j, _, _ = s.request(":resume", timeout=8)
            outs.append(native.response_summary(j))
        alive = s.alive()
        j, _, _ = s.request("1 + 1", timeout=8)
        probe = native.response_summary(j)
        return outs, alive and probe[:2] == ("ok", "2")
    finally:
        s.close()


def main():
    C = Check("C07", "resuming after a runtime error reproduces the same error")
    P = M.program()
    max_args = 2 if C.tier == "quick" else 3
    C.bounds = {"argument_counts": f"0..{max_args}", "operands": "symbolic Value_ variant per operand; Int/Float payloads "
                "symbolic 64-bit, aggregate payloads opaque", "steps": "one failing step + restore + one resumed step",
                "match_cases": 1, "block_exprs": "0..1"}
    C.assumptions += M.NATIVE_NOTES + [
        "a step is a function of (entry, state, operand stack, environment); opaque data (positions, messages, hash-map "
        "lookups) is functional in the values it is computed from; branches on it are explored both ways and the "
        "resumed step re-takes the same ones",
        "a built-in method only sees a receiver of the type it is declared on (the method table is keyed by type name)",
        "block body expressions do not leave values on the operand stack of the steps examined",
        "candidates on over-approximated (tainted) paths are reported only if the scripted JSON session reproduces them",
    ]
    names = B.display_names(P, "BuiltInFunctionKind")
    nsp = B.namespace_paths(P, "BuiltInFunctionKind")
    paths = S.walk_all(C, P, max_args=max_args)
    S.check_not_encodable(C, "C07")
    n_err = 0
    unconfirmed = []

    def mk_replay(rec):
        def replay(_m):
            rec["model"] = _m
            sns = S.snippet_alternatives(P, rec, names, nsp)       # reads the solver model: main thread
            rec["model"] = None
            if not sns:
                return {"reproduced": False, "detail": "no Garden snippet for this step"}

            def native_part():
                last = None
                for sn in sns:
                    outs, alive = native_resume(*sn)
                    if not outs or outs[0][0] != "err":
                        last = {"reproduced": False, "artefact": list(sn), "detail": f"snippet did not fail: {outs[:1]}"}
                        continue
                    same = all(o == outs[0] for o in outs[1:]) and len(outs) >= 2
                    last = {"reproduced": (not same) or (not alive),
                            "artefact": {"prelude": sn[0], "input": sn[1], "then": ":resume x2"},
                            "detail": f"responses={outs} session_alive_after={alive}"}
                    if last["reproduced"]:
                        return last
                return last
            return native_part
        return replay

    def prove_tainted_ok(name, pc, claim, site, what, rec, tainted):
        C.prove_deferred(name, pc, claim, site=site, what=what, replay=mk_replay(rec), soft=tainted,
                         model_desc=lambda m: {"step": rec["job"], "operands": {k: (rec["known_tags"].get(v[1].id) if v[1] is not None else "seeded")
                                                                                 for k, v in rec["token_values"].items()}})

    for label, job, r in paths:
        if r.kind != "ok" or r.value["outcome"] != "error":
            continue
        rec = r.value
        srec = rec["steps"][-1]
        n_err += 1
        origin = srec.get("err_origin")
        if not origin:
            where = "tail-expression-error"
        elif origin[0] in ("eval_built_in_call", "eval_built_in_method_call"):
            where = origin[0]            # the arm (job family) already localises the site inside the dispatchers
        else:
            where = S.return_ordinal(P, origin)   # fn#k: k-th `return` of a small function
        site_base = f"{S.job_family(label)}/{where}"
        exact = srec["after_restore"] == srec["before"] and srec["resumed_same_entry"]
        prove_tainted_ok(f"{label}/path:restore-exact", r.pc, exact, site_base + "/restore-order",
                         f"after the error the operand stack is {srec['after_restore']} but the step started from "
                         f"{srec['before']} (RestoreValues={srec['restore_values']})", rec, r.tainted)
        if srec.get("resume_kind") not in (None, "skipped"):
            same_err = srec["resume_kind"] == "Err" and srec.get("err2") == srec["err"] and \
                srec.get("after_restore2") == srec["after_restore"]
            prove_tainted_ok(f"{label}/path:resume-same-error", r.pc, same_err, site_base + "/resume-differs",
                             f"the resumed step ends with {srec.get('resume_kind')} {srec.get('err2') or srec.get('resume_panic')} "
                             f"instead of {srec['err']}", rec, r.tainted)
        if n_err % 60 == 1:
            C.sample({"step": label, "state": srec["state"], "stack_before": srec["before"], "restore_values": srec["restore_values"],
                      "stack_after_restore": srec["after_restore"], "resume": srec.get("resume_kind")})
    C.resolve_deferred(workers=8)
    C.reach("error-paths-exist", [z3.BoolVal(n_err > 0)])
    C.extra["error_paths"] = n_err

    # translator validation: errors whose behaviour is not in dispute must be stable natively
    for prelude, text in [("", '1 + "a"'), ("", "if 1 { }"), ("", "nosuchvariable"), ("", 'let x: Int = "s"')]:
        outs, alive = native_resume(prelude, text)
        if not (outs and outs[0][0] == "err" and all(o == outs[0] for o in outs[1:]) and alive):
            C.validation_mismatch(f"baseline resume behaviour unexpected for {text!r}: {outs}")
        else:
            C.validated_against_impl()
    C.models_used |= stdmodels.USED
    C.finish()


if __name__ == "__main__":
    run_check(main)
