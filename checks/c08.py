#!/usr/bin/env python3
"""C08 — an evaluation interrupted anywhere resumes to the same outcome.

Claimed for the interrupt step: the real `eval` loop is executed symbolically
with `eval_expr` replaced by a recording stub (a step is a function of the
machine state; the stub records which entry/state it is handed).  From an
arbitrary frame state with pending entries, with the interrupt flag, the tick
counter and both limits symbolic, z3 decides that an interrupted iteration
returns `Interrupted`, clears the flag, runs no step and leaves the machine
state identical, and that the following `eval` (the resume) hands the stub
exactly the entry and state an uninterrupted run would have.
"""
import os
import sys

sys.path.insert(0, os.path.dirname(os.path.dirname(os.path.abspath(__file__))))
import z3  # noqa: E402

from rsx.core import *  # noqa
from rsx import stdmodels  # noqa
from vlib.check import Check, run_check  # noqa
from vlib import machine as M  # noqa
from vlib import native  # noqa

STATE_SHAPES = [("NotEvaluated", None), ("PartiallyEvaluated", "WillRunBlock"), ("PartiallyEvaluated", "DoneRunBlock"),
                ("PartiallyEvaluated", "NotBlock"), ("EvaluatedSubexpressions", None)]


def mk_state(st):
    name, bs = st
    if name == "PartiallyEvaluated":
        return Enum("ExpressionState", name, [Enum("BlockState", bs, [])])
    return Enum("ExpressionState", name, [])


def state_key(stv):
    if stv.variant == "PartiallyEvaluated":
        return ("PartiallyEvaluated", stv.fields[0].variant)
    return (stv.variant, None)


def tok_expr(label):
    return Rc(Struct("Expression", {"expr_": Enum("Expression_", "Invalid", []), "position": Opaque("pos"),
                                    "value_is_used": Opaque("used"), "id": Opaque("id"), "__tok": label}, partial=True))


class LoopHarness:
    """Symbolic machine state + recording stub for eval_expr."""

    def __init__(self, ctx, P, max_entries=3, stub_plan=("err",), state_shapes=None, sym_intr=True):
        self.ctx, self.P = ctx, P
        self.calls = []   # dicts: entry identity, state key, ticks term, nframes, snapshot
        self.plan = list(stub_plan)
        nframes = 1 + ctx.choose([True, True])
        n_entries = 1 + ctx.choose([True] * max_entries)
        shapes = state_shapes or STATE_SHAPES
        top_state = shapes[ctx.choose([True] * len(shapes))]
        frames = []
        for fi in range(nframes):
            is_top = fi == nframes - 1
            if is_top:
                exprs = [(mk_state(("NotEvaluated", None)), tok_expr(f"e{fi}.{i}")) for i in range(n_entries - 1)]
                exprs.append((mk_state(top_state), tok_expr(f"e{fi}.top")))
            else:
                exprs = [(mk_state(("NotEvaluated", None)), tok_expr(f"e{fi}.0"))]
            vals = [M.mk_value(Opaque(f"v{fi}.{i}")) for i in range(2)]
            # frame-exit bookkeeping made concrete so the exit path is not a tree of opaque forks
            frames.append(M.mk_frame(values=vals, exprs=exprs, nblocks=2, extra={
                "return_hint": NONE, "caller_expr_id": NONE, "caller_uses_value": z3.Bool(f"caller_uses_value{fi}"),
                "type_bindings": Map([])}))
        self.frames = frames
        self.t = z3.BitVec("ticks", 64)
        self.intr = z3.Bool("interrupted") if sym_intr else False
        self.L = z3.BitVec("tick_limit", 64)
        self.K = z3.BitVec("stack_limit", 64)
        has_tl = ctx.choose([True, True])
        has_sl = ctx.choose([True, True])
        self.has_tl, self.has_sl = bool(has_tl), bool(has_sl)
        # the counter cannot wrap in any real run (2^64 steps): stated assumption
        ctx.assume(z3.ULT(self.t, z3.BitVecVal((1 << 63), 64)))
        self.atomic = Struct("AtomicBool", {"__atomic": self.intr})
        self.session = Struct("Session", {"interrupted": self.atomic, "trace_exprs": False}, partial=True)
        self.env = M.mk_env(frames, extra={
            "ticks": Int(self.t, 64, False),
            "tick_limit": some(Int(self.L, 64, False)) if has_tl else NONE,
            "stack_limit": some(Int(self.K, 64, False)) if has_sl else NONE,
            "stop_at_expr_id": NONE, "profile": False})
        self.I = M.mk_interp(P, ctx, natives={"eval_expr": self.stub})

    def snapshot(self):
        fr = self.env.fields["stack"].fields["0"].items
        return {"frames": [id(f) for f in fr],
                "exprs": [[(id(e[1]), state_key(e[0])) for e in f.fields["exprs_to_eval"].items] for f in fr],
                "values": [[id(v) for v in f.fields["evalled_values"].items] for f in fr],
                "blocks": [[id(b) for b in f.fields["bindings"].fields["block_bindings"].items] for f in fr]}

    def stub(self, I, args, node):
        env, session, expr, state = args
        stv = I.deref(state)
        self.calls.append({"expr": id(I.deref(expr)), "state": state_key(stv), "ticks": env.fields["ticks"],
                           "nframes": len(env.fields["stack"].fields["0"].items), "snap": self.snapshot(),
                           "flag": self.atomic.fields["__atomic"]})
        act = self.plan.pop(0) if self.plan else "err"
        if act == "ok":
            return ok(NONE)
        return err((Struct("RestoreValues", {"0": Vec([])}), Enum("EvalError", "Exception", [Opaque("exc")])))

    def run_eval(self):
        return self.I.call_user(self.P.fns["eval"], [self.env, self.session])


def err_kind(r):
    if isinstance(r, Enum) and r.ty == "Result" and r.variant == "Err":
        e = r.fields[0]
        if isinstance(e, Enum):
            return e.variant
    return None


# (definitions loaded first, program evaluated second) so the final response is the program's value
INTERRUPT_PROGRAMS = [
    ("", 'let t = 0\nlet i = 0\nwhile i < 3 {\n  i += 1\n  if i == 2 { continue }\n  t += i\n  println(string_repr(t))\n}\nstring_repr(t)'),
    ("fun f(n: Int): Int { if n < 1 { 0 } else { n + f(n - 1) } }",
     'println(string_repr(f(3)))\nlet xs = [1, 2]\nfor x in xs { println(string_repr(x * 2)) }\nmatch Some(f(1)) { Some(v) => println(string_repr(v)) None => {} }\n"done"'),
]


def run_with_interrupts(prog, ticks_spec, max_resumes=40):
    defs, body = prog
    s = native.JsonSession(env_extra={"VERIF_INTERRUPT_AT_TICK": ticks_spec} if ticks_spec else None)
    out = []
    n_intr = 0
    try:
        if defs:
            s.request(defs, timeout=10)
        j, printed, _ = s.request(body, timeout=10)
        out.append(printed)
        summ = native.response_summary(j)
        while summ[:2] == ("err", "Interrupted") or summ[0] == "interrupted":
            n_intr += 1
            if n_intr > max_resumes:
                break
            j, printed, _ = s.request(":resume", timeout=10)
            out.append(printed)
            summ = native.response_summary(j)
        return {"printed": "".join(out), "final": summ[:2], "interrupts": n_intr, "alive": s.alive()}
    finally:
        s.close()


def native_interrupt_sweep(max_tick=400, singles=None, rng=None):
    """User-visible oracle: interrupt fixed programs (at every tick in one run; at single ticks) and resume;
    compare printed output and final value with the plain run."""
    diffs = []
    runs = 0
    for prog in INTERRUPT_PROGRAMS:
        base = run_with_interrupts(prog, None)
        specs = [",".join(str(k) for k in range(1, max_tick + 1)), "3,4,9,15"]
        if singles is None:
            ks = list(range(1, max_tick + 1))
        else:
            ks = sorted((rng or __import__("random")).sample(range(1, 60), singles))
        specs += [str(k) for k in ks]
        misses = 0
        for spec in specs:
            if misses >= 3 and "," not in spec:
                break
            r = run_with_interrupts(prog, spec, max_resumes=max_tick + 5)
            runs += 1
            if r["interrupts"] == 0:
                misses += 1
            elif r["printed"] != base["printed"] or r["final"] != base["final"]:
                diffs.append({"program": prog, "ticks": spec[:60], "expected": base, "observed": r})
                break
    return diffs, runs


def main():
    C = Check("C08", "an evaluation interrupted anywhere resumes to the same outcome")
    P = M.program()
    max_entries = 3
    C.bounds = {"frames": "1..2", "pending_entries_top_frame": f"1..{max_entries}", "top_entry_state": "all 5 shapes",
                "ticks": "symbolic 64-bit (< 2^63)", "limits": "None / Some(symbolic)", "steps": "two consecutive eval() calls"}
    C.assumptions += M.NATIVE_NOTES + [
        "eval_expr is replaced by a recording stub: a step is a function of (entry, state, machine state); the stub "
        "ends the run with an exception after being handed its entry",
        "the atomic interrupt flag is a sequential boolean (cross-thread ordering is C31, outside the claim)",
        "the tick counter is below 2^63 (it counts steps since the session started)",
        "the tick counter is the one deliberate difference between an interrupted and an uninterrupted run; programs "
        "that hit the tick limit are outside the claim",
    ]
    _cache = {}

    def replay(_m):
        if "r" not in _cache:
            diffs, runs = native_interrupt_sweep(max_tick=300, singles=8, rng=C.rng)
            _cache["r"] = {"reproduced": bool(diffs), "artefact": diffs[:1],
                           "detail": f"{len(diffs)} interrupted runs differ from the plain run over {runs} runs"}
        return _cache["r"]

    def run(ctx):
        H = LoopHarness(ctx, P, max_entries=max_entries, stub_plan=("err", "err"))
        before = H.snapshot()
        top = before["exprs"][-1][-1]
        r1 = H.run_eval()
        after1 = H.snapshot()
        calls1 = list(H.calls)
        flag1 = H.atomic.fields["__atomic"]
        ticks1 = H.env.fields["ticks"]
        # resume: a second eval() on the state the first one left
        r2 = H.run_eval()
        return {"H": H, "before": before, "top": top, "r1": r1, "after1": after1, "calls1": calls1, "flag1": flag1,
                "ticks1": ticks1, "r2": r2, "calls2": H.calls[len(calls1):], "after2": H.snapshot()}

    results = explore(run)
    C.note_paths(results)
    n_intr = n_plain = 0
    for i, r in enumerate(results):
        if r.kind == "panic":
            C.prove(f"path{i}:no-panic", r.pc, False, site=f"eval-loop/panic/{r.value.fn}:{r.value.line}",
                    what=f"the eval loop prologue panics: {r.value}", replay=replay)
            continue
        if r.kind != "ok":
            continue
        v = r.value
        H = v["H"]
        C.note_interp(H.I)
        k1 = err_kind(v["r1"])
        tag = f"path{i}/{k1}"
        if k1 == "Interrupted":
            n_intr += 1
            # the flag was set; nothing ran; state identical; flag cleared
            C.prove(f"{tag}:only-when-flag-set", r.pc, H.intr, site="interrupt/spurious", what="Interrupted without the flag",
                    replay=replay)
            same = v["after1"] == v["before"] and not v["calls1"]
            C.prove(f"{tag}:state-identical-and-no-step-ran", r.pc, same, site="interrupt/state-changed",
                    what="an interrupted iteration ran a step or changed pending entries / values / blocks / frames",
                    replay=replay, model_desc=lambda m, v=v: {"before": str(v["before"]["exprs"]), "after": str(v["after1"]["exprs"])})
            fl = v["flag1"]
            C.prove(f"{tag}:flag-cleared", r.pc, (fl is False) or (not isinstance(fl, bool) and z3.Not(fl)),
                    site="interrupt/flag-not-cleared", what="the interrupt flag is still set after Interrupted", replay=replay)
            # resume: unless a limit stops it, the stub is handed the original top entry with its original state
            k2 = err_kind(v["r2"])
            if k2 in ("Exception",):
                c2 = v["calls2"]
                okc = len(c2) == 1 and (c2[0]["expr"], c2[0]["state"]) == v["top"]
                C.prove(f"{tag}:resume-runs-the-interrupted-step", r.pc, okc, site="interrupt/resume-wrong-step",
                        what="resuming after an interrupt runs a different entry or state than the interrupted one",
                        replay=replay)
            elif k2 == "Interrupted":
                C.prove(f"{tag}:no-second-interrupt-without-flag", r.pc, False, site="interrupt/repeats",
                        what="resume is interrupted again although the flag was cleared", replay=replay)
            if n_intr <= 3:
                C.sample({"outcome": "Interrupted", "pending_before": len(v["before"]["exprs"][-1]),
                          "top_state": v["top"][1], "obligations": ["state identical", "flag cleared", "resume runs same step"]})
        elif k1 == "Exception":
            n_plain += 1
            c1 = v["calls1"]
            okc = len(c1) == 1 and (c1[0]["expr"], c1[0]["state"]) == v["top"]
            C.prove(f"{tag}:first-step-is-the-top-entry", r.pc, okc, site="eval-loop/wrong-step",
                    what="the loop hands eval_expr something other than the top pending entry with its state", replay=replay)
            C.prove(f"{tag}:step-only-without-flag", r.pc, z3.Not(H.intr), site="interrupt/ignored",
                    what="a step ran although the interrupt flag was set", replay=replay)
            # the failed step was restored: the stub's entry is on top again
            C.prove(f"{tag}:failed-step-restored", r.pc, v["after1"]["exprs"] == v["before"]["exprs"],
                    site="eval-loop/restore-lost-entry", what="after a failed step the entry is not restored on top",
                    replay=replay)
        elif k1 in ("ReachedTickLimit", "ReachedStackLimit"):
            same = v["after1"] == v["before"] and not v["calls1"]
            C.prove(f"{tag}:limit-leaves-state-identical", r.pc, same, site="limit/state-changed",
                    what="a limit error ran a step or changed the machine state", replay=replay)
    C.reach("interrupted-path-exists", [z3.BoolVal(n_intr > 0)])
    C.reach("plain-step-path-exists", [z3.BoolVal(n_plain > 0)])

    # translator validation / user-visible oracle on the unchanged semantics: interrupt at every tick of two programs
    if C.tier == "thorough":
        diffs, runs = native_interrupt_sweep(max_tick=300)
    else:
        diffs, runs = native_interrupt_sweep(max_tick=300, singles=4, rng=C.rng)
    C.validated_against_impl(runs)
    C.extra["native_interrupt_runs"] = runs
    if diffs:
        # the kernel obligations held but the user-visible sweep differs: report as a violation of its own
        C.prove("native-interrupt-sweep", [], False, site="interrupt/native-sweep-differs",
                what="an interrupted-and-resumed run prints something different from the plain run",
                replay=lambda m: {"reproduced": True, "artefact": diffs[:1], "detail": str(diffs[0])[:500]})
    C.models_used |= stdmodels.USED
    C.finish()


if __name__ == "__main__":
    run_check(main)
