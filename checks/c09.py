#!/usr/bin/env python3
"""C09 — the JSON session answers every request and never dies (command-action kernel).

Start states are images of replayable recipes: idle (what Stack::new builds), and, for every expression kind and
call form, the state in which the real dispatcher stopped with an error (stepper.drive + the real
restore_stack_frame) at top level.  From each, the real `handle_run_request` arms for :resume / :skip / :abort /
:replace are executed (1 command quick, 2 thorough) followed by a final :resume, each running the real `eval` loop on
whatever is pending.  Decided: no panic obligation is reachable along the sequence and every command returns one
Response.
"""
import itertools
import json
import os
import sys

sys.path.insert(0, os.path.dirname(os.path.dirname(os.path.abspath(__file__))))
import z3  # noqa: E402

from rsx.core import *  # noqa
from rsx import stdmodels  # noqa
from vlib.check import Check, run_check  # noqa
from vlib import machine as M  # noqa
from vlib import native  # noqa
from checks import stepper as S, builtins as B  # noqa
from checks import c09b  # noqa

COMMANDS = [":resume", ":skip", ":abort", ":replace 42"]


def native_session(prelude, text, cmds):
    s = native.JsonSession()
    try:
        log = []
        if prelude:
            s.request(prelude, timeout=6)
        if text is not None:
            j, _, _ = s.request(text, timeout=6)
            log.append((text, native.response_summary(j)[:2]))
        for c in cmds + [":resume"]:
            j, _, _ = s.request(c, timeout=6)
            log.append((c, native.response_summary(j)[:2]))
        j, _, _ = s.request("1 + 1", timeout=6)
        probe = native.response_summary(j)[:2]
        unanswered = [c for c, r in log if r[0] == "none"]
        dead = (not s.alive()) or probe != ("ok", "2") or bool(unanswered)
        return {"reproduced": dead, "artefact": {"prelude": prelude, "input": text, "commands": cmds + [":resume", "1 + 1"]},
                "detail": f"log={log} probe={probe} alive={s.alive()}"}
    finally:
        s.close()


def run_after_error(P, ctx, job, seq):
    """Drive the job to an error at top level, then play the command sequence."""
    mode, kind, n = job
    S._n[0] = 0
    T = S.Templates(P, ctx, max_args=1)
    rec = S.run_job(P, ctx, job, max_args=1, toplevel=True, resume_check=False)
    if rec["outcome"] != "error":
        return {"skip": True, "called": list(rec["I"].called), "havocs": list(rec["I"].havocs)}
    St = rec["S"]
    I = St.I
    env, session = St.env, St.session

    def eval_expr_wrapper(I_, args, node):
        env_, sess_, ex, stref = args
        exs = I_.deref(ex)
        inner = exs.inner if isinstance(exs, Rc) else exs
        if isinstance(inner, Opaque) or (isinstance(inner, Struct) and "__sub" in inner.fields):
            # a pending sub-expression / the replacement expression: evaluates to one fresh value
            used = True if isinstance(inner, Opaque) else inner.fields["value_is_used"]
            if used is None:
                used = False
            if used:
                lab = S.fresh("cont")
                if isinstance(inner, Opaque):
                    # the replacement expression of `:replace 42` is the literal 42
                    St.seeded[lab] = M.v_int(Int(42, 64, True))
                St.push_value(lab)
            return ok(NONE)
        return I_.call_user_body(P.fns["eval_expr"], args)
    I.natives["eval_expr"] = eval_expr_wrapper
    env.fields.setdefault("tick_limit", NONE)
    env.fields.setdefault("stack_limit", NONE)
    env.fields.setdefault("stop_at_expr_id", NONE)
    env.fields.setdefault("profile", False)
    session.fields["interrupted"] = Struct("AtomicBool", {"__atomic": False})
    session.fields["trace_exprs"] = False
    I.loop_bound = 12
    responses = []
    for cmd in seq + [":resume"]:
        try:
            r = I.call_user(P.fns["handle_run_request"], [Str(cmd), env, session, NONE, NONE, NONE, NONE])
            responses.append((cmd, I.type_name(I.deref(r)) or type(r).__name__))
        except UnwindExceeded:
            responses.append((cmd, "bound"))
            break
    # only what the obligations need: a path's interpreter and machine state are large and there are thousands of paths
    return {"skip": False, "called": list(I.called), "havocs": list(I.havocs), "responses": responses}


def run_native_spec(spec):
    last = None
    for sn in spec["sns"]:
        last = native_session(sn[0], sn[1], list(spec["seq"]))
        if last["reproduced"]:
            return last
    return last or {"reproduced": False, "detail": "no snippet"}


def recipe_reps(P, label, job):
    """Stage 1: the error states of one recipe, one representative (decision prefix) per machine shape."""
    S._n[0] = 0
    pre = explore(lambda ctx: S.run_job(P, ctx, job, max_args=1, toplevel=True, resume_check=False), max_paths=6000)
    reps = {}
    for r in pre:
        if r.kind != "ok" or r.value["outcome"] != "error":
            continue
        st = r.value["steps"][-1]
        sig = (st.get("err_origin"), st["state"], len(st["before"]) - len(st["after_restore"]), st.get("stale_entries"),
               st.get("blocks_delta"), len(r.value["S"].entries()))
        reps.setdefault(repr(sig), list(r.decisions))
    return len(pre), list(reps.values())


def play_unit(C, P, label, job, dec, seq, names, nsp):
    """Stage 2: one (error state, command sequence) unit; obligations and candidates go to C."""
    n_paths = n_states = 0
    res = explore(lambda ctx: run_after_error(P, ctx, job, seq), max_paths=3000, initial=[dec])
    C.note_paths(res)
    for r in res:
        if r.kind == "ok":
            for (name, file, l0, l1, h) in r.value["called"]:
                C.functions[name] = {"fn": name, "file": file, "lines": [l0, l1], "hash": h}
            C.havocs |= set(r.value["havocs"])
            if not r.value["skip"]:
                n_states += 1
                bad = [c for c, t in r.value["responses"] if t not in ("Response", "bound")]
                if bad:
                    C.prove_deferred(f"{label}/{seq}:one-response", r.pc, False, site=f"{S.job_family(label)}/{' '.join(seq)}/no-response",
                                     what=f"command {bad} does not produce a Response", replay=None, soft=r.tainted)
            continue
        if r.kind != "panic":
            continue
        p = r.value
        site = f"{S.job_family(label)} then {' '.join(seq)}/{p.fn}/{p.kind}"

        def replay(_m, job=job, seq=seq, r=r):
            ctx = Ctx(r.decisions, [])
            rec = None
            try:
                S._n[0] = 0
                rec = S.run_job(P, ctx, job, max_args=1, toplevel=True, resume_check=False)
            except Exception:
                pass
            if rec is None:
                rec = {"job": job, "known_tags": dict(ctx.known_tags), "token_values": getattr(ctx, "_last_token_values", {}),
                       "expr": getattr(ctx, "_last_expr", None), "userfun_params": getattr(ctx, "_last_userfun_params", None)}
            if rec.get("expr") is None:
                return {"reproduced": False, "detail": "could not rebuild the recipe"}
            rec["model"] = _m
            sns = S.snippet_alternatives(P, rec, names, nsp, limit=4)
            rec["model"] = None
            if not sns:
                return {"reproduced": False, "detail": "no Garden snippet for this recipe"}

            spec = {"sns": [list(sn) for sn in sns], "seq": list(seq)}

            def native_part(spec=spec):
                return run_native_spec(spec)
            native_part.spec = spec     # plain data: a pool process hands it to the parent, which replays once per site
            return native_part
        C.prove_deferred(f"{label}/{seq}:no-panic:{p.kind}@{p.line}", r.pc, False, site=site,
                         what=f"after the error in {label}, {seq} + :resume panics: {p}", replay=replay, soft=r.tainted,
                         model_desc=lambda m, label=label, seq=seq, p=p: {"recipe": label, "commands": seq, "panic": str(p)})
        n_paths += 1
    return n_paths, n_states


_SHARED = {}


def make_seqs(tier):
    seq_len = 1 if tier == "quick" else 2
    seqs = [list(s) for n in range(1, seq_len + 1) for s in itertools.product(COMMANDS, repeat=n)]
    # after :abort nothing of the evaluation is left (C10): longer sequences that start with it add nothing
    return [s for s in seqs if len(s) == 1 or s[0] != ":abort"]


def make_jobs(P, tier):
    jobs = [(label, job) for label, job in S.jobs(P, max_args=1)]
    if tier in ("quick", "thorough"):
        # the command-action kernel does not depend on which built-in failed: one representative per call form (both
        # tiers; thorough plays sequences of two commands)
        keep = ("expr:", "fun:PreludePrint/", "fun:PreludeThrow/", "method:StringLen/", "method:ListGet/", "call-other/", "userfun:Fun/")
        jobs = [(l, j) for l, j in jobs if l.startswith(keep)]
    only = os.environ.get("VERIF_C09_ONLY")      # debugging aid: restrict part A to some recipes
    if only:
        jobs = [(l, j) for l, j in jobs if l.startswith(tuple(only.split(",")))]
    return jobs


def _summary(C, counters):
    from rsx.core import STATS
    pend = {}
    for site, p_ in C._pending.items():
        pend[site] = {"what": p_["what"], "name": p_["name"], "model": p_["model"], "soft": p_["soft"],
                      "replays": [(sf, getattr(th, "spec", None), md) for sf, th, md in p_["replays"]]}
    return {"obligations": C.obligations, "violations": C.violations, "known_hits": C.known_hits,
            "inconclusive": C.inconclusive, "unconfirmed": C.unconfirmed, "functions": C.functions,
            "havocs": sorted(C.havocs), "paths": C.paths, "samples": C.samples, "replays": C.replays,
            "solver_s": STATS.solver_s, "solver_calls": STATS.solver_calls, "counters": counters, "pending": pend}


def worker_main(units_file, k, n, out_file):
    """One independent process of part A (started by the parent, not forked from it: forked or pool children of a
    large interpreter serialise in the kernel on this machine): every n-th unit, results as JSON."""
    import time as _time
    spec = json.load(open(units_file))
    tier = spec["tier"]
    os.environ["VERIF_TIER"] = tier
    P = M.program()
    jobs = make_jobs(P, tier)
    Cw = Check("C09", "part A worker")
    n_paths = n_states = 0
    not_enc = {}
    if [l for l, _ in jobs] != spec["labels"]:
        Cw.inconclusive.append("part A worker derived a different recipe list than the parent")
        units = []
    else:
        units = spec["units"][k::n]
    names = B.display_names(P, "BuiltInFunctionKind")
    nsp = B.namespace_paths(P, "BuiltInFunctionKind")
    tl = os.environ.get("VERIF_C09_TIMES")
    for (kj, dec, seq) in units:
        label, job = jobs[kj]
        t0 = _time.time()
        p0 = Cw.paths
        try:
            a, b = play_unit(Cw, P, label, job, dec, seq, names, nsp)
            n_paths += a
            n_states += b
        except (Unsupported, UnwindExceeded) as ex:
            not_enc[f"{label} {seq}"] = str(ex)[:140]
        except Exception as ex:   # a crashed unit must not look like a pass
            import traceback
            Cw.inconclusive.append(f"part A unit {label} {seq} crashed: {ex!r} {traceback.format_exc()[-400:]}")
        if tl:
            with open(tl, "a") as f:
                f.write(f"{_time.time() - t0:.1f} {label} {seq} paths={Cw.paths - p0} pid={os.getpid()}\n")
    with open(out_file, "w") as f:
        json.dump(_summary(Cw, [n_paths, n_states, not_enc]), f, default=str)


def run_part_a_parallel(C, P, jobs, seqs, names, nsp, nw):
    import subprocess
    import tempfile
    from rsx.core import STATS
    n_paths = n_states = 0
    not_enc = {}
    units = []
    for k, (label, job) in enumerate(jobs):
        try:
            n_pre, reps = recipe_reps(P, label, job)
        except (Unsupported, UnwindExceeded) as ex:
            not_enc[label] = str(ex)[:140]
            continue
        C.paths += n_pre
        for dec in reps:
            for seq in seqs:
                units.append((k, dec, seq))
    C.extra["part_a_units"] = len(units)
    d = tempfile.mkdtemp(prefix="verif-c09-", dir="/var/tmp")
    try:
        uf = os.path.join(d, "units.json")
        json.dump({"tier": C.tier, "labels": [l for l, _ in jobs], "units": units}, open(uf, "w"))
        procs = []
        for k in range(nw):
            of = os.path.join(d, f"out{k}.json")
            pr = subprocess.Popen([sys.executable, os.path.abspath(__file__), "--part-a-worker", uf, str(k), str(nw), of],
                                  stdout=subprocess.DEVNULL, stderr=open(os.path.join(d, f"err{k}.txt"), "w"),
                                  preexec_fn=native.die_with_parent)
            procs.append((pr, of, k))
        for pr, of, k in procs:
            pr.wait()
            if pr.returncode != 0 or not os.path.exists(of):
                err = open(os.path.join(d, f"err{k}.txt")).read()[-400:]
                C.inconclusive.append(f"part A worker {k} failed (status {pr.returncode}): {err}")
                continue
            o = json.load(open(of))
            C.obligations += o["obligations"]
            C.violations += [tuple(v) for v in o["violations"] if tuple(v) not in C.violations]
            for s_, w_ in o["known_hits"]:
                if not any(s_ == s2 for s2, _ in C.known_hits):
                    C.known_hits.append((s_, w_))
            C.inconclusive += o["inconclusive"]
            C.unconfirmed += [x for x in o["unconfirmed"] if x not in C.unconfirmed]
            C.functions.update(o["functions"])
            C.havocs |= set(o["havocs"])
            C.paths += o["paths"]
            for smp in o["samples"]:
                C.sample(smp)
            C.replays += o["replays"]
            STATS.solver_s += o["solver_s"]
            STATS.solver_calls += o["solver_calls"]
            for site, pw in o.get("pending", {}).items():
                pp = C._pending.setdefault(site, {"replays": [], "what": pw["what"], "name": pw["name"], "model": pw["model"],
                                                  "soft": pw["soft"], "obs": []})
                pp["soft"] = pp["soft"] and pw["soft"]
                for sf, spec, md in pw["replays"]:
                    if spec is not None and len(pp["replays"]) < 12:
                        pp["replays"].append((sf, (lambda spec=spec: run_native_spec(spec)), md))
            a, b_, c = o["counters"]
            n_paths += a
            n_states += b_
            not_enc.update(c)
    finally:
        import shutil
        shutil.rmtree(d, ignore_errors=True)
    return n_paths, n_states, not_enc


def main():
    C = Check("C09", "the JSON session answers every request and never dies")
    P = M.program()
    seq_len = 1 if C.tier == "quick" else 2
    C.bounds = {"start_states": "idle + one representative per machine shape (error origin, entry state, values lost, stale entries, block delta) of every error state the step driver reaches (expression kinds, built-in calls with "
                "0..1 arguments, other calls) at top level", "command_sequences": f"<= {seq_len} of {COMMANDS} then :resume",
                "eval_steps_per_command": "<= 12 loop iterations"}
    C.assumptions += M.NATIVE_NOTES + [
        "start states are produced by the real dispatcher (each sub-expression evaluates to one symbolic value), at top level "
        "(one frame, one bindings block), and stopped by a real error + restore_stack_frame",
        "pending sub-expression tokens evaluate to one fresh symbolic value each; the replacement expression of `:replace 42` evaluates to Int 42",
        "the reader thread, stdin framing, serde_json and the ~25 printing commands of run_command are outside the claim",
        "panic candidates on over-approximated paths count only if the scripted JSON session dies or stops answering",
    ]
    names = B.display_names(P, "BuiltInFunctionKind")
    nsp = B.namespace_paths(P, "BuiltInFunctionKind")
    seqs = make_seqs(C.tier)

    jobs = make_jobs(P, C.tier)
    C.extra["recipes"] = [l for l, _ in jobs]
    nw = int(os.environ.get("VERIF_WORKERS", "8"))
    C.extra["part_a_processes"] = nw
    n_paths, n_states, not_enc = run_part_a_parallel(C, P, jobs, seqs, names, nsp, nw)
    # idle state: commands with nothing pending
    for seq in seqs:
        def run_idle(ctx, seq=seq):
            I = M.mk_interp(P, ctx)
            frame = M.mk_frame(values=[M.mk_value(Opaque("unit"))], exprs=[], nblocks=1)
            env = M.mk_env([frame], extra={"ticks": Int(0, 64, False), "tick_limit": NONE, "stack_limit": NONE,
                                           "stop_at_expr_id": NONE, "profile": False})
            session = Struct("Session", {"interrupted": Struct("AtomicBool", {"__atomic": False}), "trace_exprs": False}, partial=True)

            def eval_expr_wrapper(I_, args, node):
                frame.fields["evalled_values"].items.append(M.mk_value(Opaque("replaced")))
                return ok(NONE)
            I.natives["eval_expr"] = eval_expr_wrapper
            for cmd in seq + [":resume"]:
                I.call_user(P.fns["handle_run_request"], [Str(cmd), env, session, NONE, NONE, NONE, NONE])
            return {"I": I}
        res = explore(run_idle, max_paths=2000)
        C.note_paths(res)
        for r in res:
            if r.kind == "panic":
                p = r.value
                C.prove_deferred(f"idle/{seq}:no-panic:{p.kind}@{p.line}", r.pc, False, site=f"idle then {' '.join(seq)}/{p.fn}/{p.kind}",
                                 what=f"with nothing pending, {seq} + :resume panics: {p}", soft=r.tainted,
                                 replay=lambda m, seq=seq: (lambda: native_session("", None, list(seq))),
                                 model_desc=lambda m, seq=seq, p=p: {"state": "idle", "commands": seq, "panic": str(p)})
            elif r.kind == "ok":
                C.note_interp(r.value["I"])
    # part B: the value-balance kernel (inductive step over all balanced stopped states)
    c09b.run_balance(C, P)
    # part C: a suspended assignment and the commands that remove its variable
    from checks import c09c
    c09c.run_suspended_kernel(C, P)
    C.resolve_deferred(workers=8)
    C.extra["recipes_not_encodable"] = dict(list(not_enc.items())[:40])
    C.extra["error_states_played"] = n_states
    C.reach("error-states-exist", [z3.BoolVal(n_states > 0)])
    C.sample({"error_states_played": n_states, "command_sequences": seqs[:6], "panic_candidates": n_paths})
    for k, why in not_enc.items():
        pass
    # native companion (not a solver obligation): request *parameters* the kernels do not model - offsets of run / load
    # requests that do not fit the input - must be answered too
    def native_offsets():
        bad = []
        for req in ({"method": "run", "input": "1 + 1", "end_offset": 50}, {"method": "run", "input": "\u00e91 + 1", "offset": 1},
                    {"method": "load", "input": "fun f() { 1 }", "path": "/var/tmp/verif-x.gdn", "offset": 0, "end_offset": 99},
                    {"method": "run", "input": "1 + 1", "offset": 4, "end_offset": 2}):
            s = native.JsonSession()
            try:
                s.send(req)
                j, _, _ = s._read_response(native.MIN_TIMEOUT)
                j2, _, _ = s.request("1 + 1", timeout=6)
                if j is None or native.response_summary(j2)[:2] != ("ok", "2") or not s.alive():
                    bad.append(req)
            finally:
                s.close()
        return {"reproduced": bool(bad), "artefact": {"requests": bad}, "detail": f"{len(bad)} requests with offsets that do not fit the input are not answered"}
    rep_off = native_offsets()
    if rep_off["reproduced"]:
        C.prove("request-offsets-answered", [], False, site="request/offsets-out-of-range", what="a run/load request whose offsets do not fit "
                "the input kills the session", replay=lambda m: rep_off)
    else:
        C.validated_against_impl(4)
    # translator validation: histories whose behaviour is not in dispute
    for text, cmds in (('1 + ""', [":resume"]), ('1 + ""', [":abort"]), ('nosuchvariable', [":replace 42"])):
        rep = native_session("", text, cmds)
        if rep["reproduced"]:
            C.validation_mismatch(f"baseline history {text!r} {cmds}: {rep['detail']}")
        else:
            C.validated_against_impl()
    C.models_used |= stdmodels.USED
    C.finish()


if __name__ == "__main__":
    if len(sys.argv) > 1 and sys.argv[1] == "--part-a-worker":
        import gc
        gc.set_threshold(400000, 50, 50)
        worker_main(sys.argv[2], int(sys.argv[3]), int(sys.argv[4]), sys.argv[5])
    else:
        run_check(main)
