"""C09 part B — the value-balance kernel of the command actions (inductive step).

A stopped session is: 1..2 frames, each with pending entries and an operand stack.  Every pending entry, when its
step runs, pops `need` operands and, when it completes, pushes one value iff `value_is_used`.  A state is *balanced*
(Inv) when, running the pending entries of each frame from the top, every entry finds its operands, and a frame that
is about to exit (or the bottom frame after its last entry) still holds the value the real `eval` pops there.
Evaluation without errors keeps Inv; an error restores what the failing step popped (C07's subject) and keeps Inv.

The step decided here: from EVERY balanced state within the bound (shape forked, `value_is_used` flags symbolic),
one request — the real `handle_run_request` arm of :resume / :skip / :abort / :replace, or a new evaluation through the
real `eval_toplevel_exprs_then_stop` — running the real `eval` loop (frame exit, `restore_stack_frame`,
`pop_to_toplevel`) with `eval_expr` replaced by a stub that pops `need` operands (panic candidate when one is missing),
fails or completes — never panics and ends in a balanced state again.  By induction on the number of requests, no
request sequence reaches a missing operand.  When the step fails, the same engine searches the shortest continuation
(<= 3 more requests) that reaches a panic, and that request sequence is played against the real binary on a library
of programs that stop in the corresponding situations; only a session that dies or stops answering is reported.
"""
import z3

from rsx.core import *  # noqa
from vlib import machine as M
from vlib import native
from checks.c08 import mk_state

CMDS = [":resume", ":skip", ":abort", ":replace 42", "EVAL"]

# (definitions, request that stops with an error or None for idle): the stopped situations the shapes stand for
PROGRAMS = [
    ("", "[nosuchvar, nosuchvar2]"),
    ("", "1 + nosuchvar"),
    ("", "nosuchvar"),
    ("", '1 + "a"'),
    ("", None),
    ("fun f() { nosuchvar }", "f()"),
    ("fun f() { [nosuchvar, nosuchvar2] }", "f()"),
    ("fun g(x) { x }\nfun f() { g(nosuchvar) + 1 }", "f()"),
    ("fun f(): NoSuchType { 1 }", "f()"),
    ("fun f(): NoSuchType { }", "f()"),
    ('fun f(): Int { "a" }', "f()"),
]
EVAL_TEXTS = ["1 + nosuchvar3", "[nosuchvar3, nosuchvar4]", "7"]


def tok_expr(label, used, n):
    return Rc(Struct("Expression", {"expr_": Enum("Expression_", "Invalid", []), "position": Opaque("pos"),
                                    "value_is_used": used, "id": Struct("SyntaxId", {"0": Int(n, 64, False)}),
                                    "__tok": label}, partial=True))


def b2i(b):
    if isinstance(b, bool):
        return z3.IntVal(1 if b else 0)
    return z3.If(b, z3.IntVal(1), z3.IntVal(0))


class Bal:
    def __init__(self, ctx, P, tier):
        self.ctx, self.P = ctx, P
        self.toks = {}
        self.nid = 100
        self.fail_forks = 0
        self.max_fail_forks = 2
        self.hint_dec = {}
        self.nq = 0
        self.natives_hit = set()
        thorough = tier == "thorough"
        nframes = 1 + ctx.choose([True, True])
        frames = []
        for fi in range(nframes):
            is_top = fi == nframes - 1
            max_n = 2 if is_top else 1
            n = ctx.choose([True] * (max_n + 1))
            entries = []
            for i in range(n):
                need = ctx.choose([True] * (3 if thorough else 2))
                lab = f"e{fi}.{i}"
                used = z3.Bool(f"used_{lab}")
                self.toks[lab] = {"need": need, "used": used, "kids": 0}
                st = ("EvaluatedSubexpressions", None) if need else ("NotEvaluated", None)
                self.nid += 1
                entries.append((mk_state(st), tok_expr(lab, used, self.nid)))
            hs = list(range(0, 5 if thorough else 4)) if is_top else [1, 2]
            H = hs[ctx.choose([True] * len(hs))]
            vals = [M.mk_value(Opaque(f"v{fi}.{i}")) for i in range(H)]
            hint = NONE
            if fi > 0 and ctx.choose([True, True]) == 1:
                hint = some(Struct("TypeHint", {"position": Opaque("hintpos")}, partial=True))
            frames.append(M.mk_frame(values=vals, exprs=entries, nblocks=1, extra={
                "return_hint": hint, "caller_expr_id": NONE, "caller_uses_value": z3.Bool(f"caller_uses_value{fi}"),
                "type_bindings": Map([])}))
        self.session = Struct("Session", {"interrupted": Struct("AtomicBool", {"__atomic": False}), "trace_exprs": False},
                              partial=True)
        self.env = M.mk_env(frames, extra={"ticks": Int(0, 64, False), "tick_limit": NONE, "stack_limit": NONE,
                                           "stop_at_expr_id": NONE, "profile": False})
        self.I = M.mk_interp(P, ctx, natives={"eval_expr": self.stub, "Type::from_hint": self.nat_from_hint,
                                              "check_type": self.nat_check_type})
        self.I.loop_bound = 16
        self.shape = self.describe()
        ctx.assume(z3.And(*self.inv()) if self.inv() else True)

    # ---------------------------------------------------------------- state
    def frames(self):
        return self.env.fields["stack"].fields["0"].items

    def entry_info(self, st, ex):
        I = self.I
        exs = I.deref(ex)
        inner = exs.inner if isinstance(exs, Rc) else exs
        if isinstance(inner, Opaque) or "__tok" not in inner.fields:
            return 0, True, "replacement"
        lab = inner.fields["__tok"]
        tok = self.toks[lab]
        stv = I.deref(st)
        need = tok["need"] if stv.variant != "NotEvaluated" else 0
        return need, tok["used"], lab

    def inv(self):
        conds = []
        fr = self.frames()
        for fi, f in enumerate(fr):
            h = z3.IntVal(len(f.fields["evalled_values"].items))
            entries = f.fields["exprs_to_eval"].items
            if fi < len(fr) - 1:
                h = h + b2i(fr[fi + 1].fields["caller_uses_value"])
            for (st, ex) in reversed(entries):
                need, used, _ = self.entry_info(st, ex)
                conds.append(h >= need)
                h = h - need + b2i(used)
            if fi > 0 or entries:
                conds.append(h >= 1)
        return conds

    def describe(self):
        out = []
        for f in self.frames():
            ents = []
            for (st, ex) in f.fields["exprs_to_eval"].items:
                need, used, lab = self.entry_info(st, ex)
                ents.append(f"{lab}:need{need}")
            hint = f.fields.get("return_hint")
            out.append({"values": len(f.fields["evalled_values"].items), "entries": ents,
                        "return_hint": bool(isinstance(hint, Enum) and hint.variant == "Some")})
        return out

    # -------------------------------------------------------------- natives
    def stub(self, I, args, node):
        env, session, expr, state = args
        self.natives_hit.add("eval_expr")
        exs = I.deref(expr)
        frame = self.frames()[-1]
        vals = frame.fields["evalled_values"].items
        need, used, lab = self.entry_info(state, exs)
        tok = self.toks.get(lab)
        if tok and tok["kids"] and I.deref(state).variant == "NotEvaluated":
            # as the real arms do: re-queue the expression as EvaluatedSubexpressions, queue its children
            q = frame.fields["exprs_to_eval"].items
            q.append((mk_state(("EvaluatedSubexpressions", None)), exs))
            for k in range(tok["kids"]):
                kl = f"{lab}.k{k}"
                self.toks[kl] = {"need": 0, "used": True, "kids": 0}
                self.nid += 1
                q.append((mk_state(("NotEvaluated", None)), tok_expr(kl, True, self.nid)))
            return ok(NONE)
        popped = []
        for _ in range(need):
            if not vals:
                raise Panic("operand-missing", None, f"the step of entry {lab} pops an operand that is not there", "eval_expr")
            popped.append(vals.pop())
        if self.fail_forks < self.max_fail_forks:
            self.fail_forks += 1
            if self.ctx.choose([True, True]) == 1:
                # the step fails and restores exactly what it popped (what C07 decides for the real arms)
                return err((Struct("RestoreValues", {"0": Vec(list(reversed(popped)))}),
                            Enum("EvalError", "Exception", [Struct("ExceptionInfo", {"position": Opaque("epos"),
                                                                                     "message": Opaque("emsg")})])))
        if I.branch(used):
            vals.append(M.mk_value(Opaque(f"res.{lab}")))
        return ok(NONE)

    def nat_from_hint(self, I, args, node):
        self.natives_hit.add("Type::from_hint")
        key = ("hint", id(self.frames()[-1]))
        if key not in self.hint_dec:
            self.hint_dec[key] = self.ctx.choose([True, True])
        return ok(Opaque("ret_ty")) if self.hint_dec[key] == 0 else err(Opaque("no such type"))

    def nat_check_type(self, I, args, node):
        self.natives_hit.add("check_type")
        key = ("check", id(self.frames()[-1]))
        if key not in self.hint_dec:
            self.hint_dec[key] = self.ctx.choose([True, True])
        return ok(UNIT) if self.hint_dec[key] == 0 else err(Opaque("type mismatch message"))

    # ------------------------------------------------------------- requests
    def do(self, cmd):
        I, P = self.I, self.P
        if cmd == "EVAL":
            kids = 2 * self.ctx.choose([True, True])
            self.nq += 1
            lab = f"q{self.nq}"
            self.toks[lab] = {"need": kids, "used": True, "kids": kids}
            self.nid += 1
            root = tok_expr(lab, True, self.nid).inner
            items = Vec([Enum("ToplevelItem", "Expr", [Struct("ToplevelExpression", {"0": root})])])
            return I.call_user(P.fns["eval_toplevel_exprs_then_stop"], [items, self.env, self.session, Opaque("ns")])
        return I.call_user(P.fns["handle_run_request"], [Str(cmd), self.env, self.session, NONE, NONE, NONE, NONE])


def native_history(prelude, text, cmds, eval_text, repl_text=":replace 42"):
    s = native.JsonSession()
    try:
        log = []
        if prelude:
            s.request(prelude, timeout=6)
        reqs = ([text] if text is not None else []) + [eval_text if c == "EVAL" else (repl_text if c.startswith(":replace") else c)
                                                       for c in cmds]
        for r in reqs:
            j, _, _ = s.request(r, timeout=6)
            log.append((r, native.response_summary(j)[:2]))
        j, _, _ = s.request("1 + 1", timeout=6)
        probe = native.response_summary(j)[:2]
        unanswered = [c for c, r in log if r[0] == "none"]
        dead = (not s.alive()) or probe[0] == "none" or bool(unanswered)
        return {"reproduced": dead, "artefact": {"prelude": prelude, "requests": reqs + ["1 + 1"]},
                "detail": f"log={log} probe={probe} alive={s.alive()}"}
    finally:
        s.close()


def native_candidates(cmds):
    """Play the request sequence on every library program; first session that dies is the witness."""
    last = None
    for prelude, text in PROGRAMS:
        for et in (EVAL_TEXTS if "EVAL" in cmds else [None]):
            for rt in ([":replace 42", ":replace nosuchvar9"] if any(c.startswith(":replace") for c in cmds) else [":replace 42"]):
                last = native_history(prelude, text, list(cmds), et, rt)
                if last["reproduced"]:
                    return last
    return last


def run_balance(C, P):
    tier = C.tier
    C.bounds["balance_kernel"] = {"frames": "1..2", "pending_entries": "top frame 0..2, caller frame 0..1",
                                  "operands_popped_per_entry": "0..1 (thorough 0..2)", "operand_stack_height": "0..3 (thorough 0..4); caller 1..2",
                                  "failing_steps_per_request": "<= 2", "requests": "one (inductive step); continuation search <= 3 more",
                                  "new_evaluation": "one expression with 0 or 2 sub-expressions"}
    C.assumptions += [
        "balance kernel: a pending entry is (operands popped, value_is_used); its step either fails restoring exactly what it "
        "popped or completes pushing one value iff value_is_used (what C07 decides for the real arms); a step does not "
        "call a user function (the two-frame start states cover frame exit)",
        "balance kernel: start states are all balanced states (every pending entry finds its operands; an exiting frame holds "
        "its return value); Type::from_hint and check_type at frame exit fail or succeed, consistently per frame",
        "balance kernel: a broken step is reported only when the continuation it enables kills a real JSON session on one of "
        f"{len(PROGRAMS)} library programs",
    ]
    n_ok = n_bad = 0
    hit = set()
    for cmd in CMDS:
        def run(ctx, cmd=cmd):
            B = Bal(ctx, P, tier)
            B.do(cmd)
            post = B.inv()
            return {"B": B, "post": post}
        res = explore(run, max_paths=60000)
        C.note_paths(res)
        broken = []
        for i, r in enumerate(res):
            if r.kind == "panic":
                p = r.value
                broken.append((r, f"panic {p.kind} in {p.fn}: {p.msg or ''}"))
                continue
            if r.kind != "ok":
                continue
            B = r.value["B"]
            hit |= B.natives_hit
            C.note_interp(B.I)
            post = r.value["post"]
            claim = z3.And(*post) if post else z3.BoolVal(True)
            v, m = C.decider.prove(f"C09:balance/{cmd}/path{i}:inv-preserved", r.pc, claim)
            C.obligations.append({"name": f"balance/{cmd}/path{i}:inv-preserved", "verdict": v})
            if v == "unsat":
                n_ok += 1
            elif v == "sat":
                broken.append((r, f"state after the request is not balanced (from {B.shape})"))
            else:
                C.inconclusive.append(f"balance/{cmd}/path{i}: solver returned unknown")
            if i % 400 == 0:
                C.sample({"balance_step": cmd, "from": B.shape, "to": B.describe(), "verdict": v})
        if not broken:
            continue
        n_bad += len(broken)
        # continuation search: short request sequences after the broken step that reach a panic (several, because the
        # shortest symbolic witness need not be one of the library situations)
        import itertools
        witnesses = []
        seen = set()
        for r, why in broken[:40]:
            if r.kind == "panic" and (cmd,) not in seen:
                seen.add((cmd,))
                witnesses.append(([cmd], why, r))
        for depth in (1, 2):
            for cont in itertools.product(CMDS, repeat=depth):
                if len(witnesses) >= 12:
                    break
                def run2(ctx, cmd=cmd, cont=cont):
                    B = Bal(ctx, P, tier)
                    B.do(cmd)
                    for c in cont:
                        B.do(c)
                    return None
                for r, why in [b for b in broken if b[0].kind == "ok"][:4]:
                    try:
                        res2 = explore(run2, max_paths=4000, initial=[r.decisions])
                    except UnwindExceeded:
                        continue
                    hit2 = next((r2 for r2 in res2 if r2.kind == "panic"), None)
                    if hit2 is not None:
                        key = (cmd,) + tuple(cont)
                        if key not in seen:
                            seen.add(key)
                            witnesses.append(([cmd] + list(cont), f"{why}; then {list(cont)} reaches: {hit2.value}", hit2))
                        break
        site = f"balance/{cmd}"
        if not witnesses:
            C.unconfirmed.append({"site": site, "detail": f"{len(broken)} paths leave an unbalanced state ({broken[0][1][:160]}) "
                                  "but no continuation within 2 requests reaches a panic"})
            continue
        cmds0, why0, rw = witnesses[0]
        seqs = [w[0] for w in witnesses]

        def replay(m, seqs=seqs):
            def native_part():
                last = None
                for cmds in seqs:
                    last = native_candidates(cmds)
                    if last["reproduced"]:
                        return last
                return last
            return native_part
        C.prove_deferred(f"balance/{cmd}:no-missing-operand", rw.pc, False, site=site,
                         what=f"{cmd} leaves the machine unbalanced: {why0}; request sequences reaching a panic: {seqs}", soft=True,
                         replay=replay, model_desc=lambda m, seqs=seqs, why0=why0: {"requests_after_stop": seqs, "why": why0[:300]})
    C.extra["balance_kernel"] = {"steps_balanced": n_ok, "steps_broken": n_bad, "stubs_reached": sorted(hit)}
    C.reach("balance-steps-exist", [z3.BoolVal(n_ok > 0)])
    C.reach("balance-frame-exit-reached", [z3.BoolVal("Type::from_hint" in hit and "check_type" in hit)])
