"""C09 part C — a suspended assignment and the commands that remove its variable.

A step can rely on something an earlier step of the same expression established (`x = e`: "x is bound").  Between a
failed sub-expression and the resumed parent step the session accepts commands that change exactly that
(`:forget_local x`).  Start state (built directly, every piece concrete except the values): the top-level frame holds
the local `uv`, the parent `uv = <rhs>` / `uv += <rhs>` is pending in state EvaluatedSubexpressions and its
right-hand side — which failed — is pending above it.  Through the real `handle_run_request`: `:forget_local uv`, then
`:skip` / `:replace 42` / `:resume`, then `:resume`; the real `eval` loop and the real Assign / AssignUpdate arms
(`eval_assign`, `eval_assign_update`, `Bindings::has/get/remove/set_existing`) run on whatever is pending.  Decided: no
panic obligation is reachable and every request returns a Response.
"""
import z3

from rsx.core import *  # noqa
from vlib import machine as M
from vlib import native
from checks import stepper as S

FINISHERS = [":skip", ":replace 42", ":resume"]


def run_suspended(ctx, P, kind, fin, forget):
    I = M.mk_interp(P, ctx)
    sid = Struct("InternedSymbolId", {"0": Int(7, 64, False)})
    other = Struct("InternedSymbolId", {"0": Int(8, 64, False)})
    var = Struct("Symbol", {"position": Opaque("var.pos"), "name": Struct("SymbolName", {"text": Str("uv")}), "id": Opaque("var.id"),
                            "interned_id": sid})
    rhs = S.sub_token("rhs")
    if kind == "Assign":
        e_ = Enum("Expression_", "Assign", [var, rhs])
    else:
        e_ = Enum("Expression_", "AssignUpdate", [var, Enum("AssignUpdateKind", "Add", []), rhs])
    parent = Rc(Struct("Expression", {"expr_": e_, "position": Opaque("p.pos"), "value_is_used": z3.Bool("parent_used"),
                                      "id": Opaque("p.id")}, partial=True))
    frame = M.mk_frame(values=[M.mk_value(Opaque("bottom"))],
                       exprs=[(Enum("ExpressionState", "EvaluatedSubexpressions", []), parent),
                              (Enum("ExpressionState", "NotEvaluated", []), rhs)], nblocks=1)
    frame.fields["bindings"].fields["block_bindings"].items[0].fields["values"] = Map([(sid, M.v_int(Int(1, 64, True)))])
    frame.fields["namespace"] = Rc(Struct("NamespaceInfo", {"values": Map([])}, partial=True))
    env = M.mk_env([frame], extra={"ticks": Int(0, 64, False), "tick_limit": NONE, "stack_limit": NONE, "stop_at_expr_id": NONE,
                                   "profile": False, "id_gen": Struct("IdGenerator", {}, partial=True)})
    session = Struct("Session", {"interrupted": Struct("AtomicBool", {"__atomic": False}), "trace_exprs": False}, partial=True)

    def intern(I_, a, n):
        nm = I_.deref(a[1])
        txt = nm.fields["text"]
        return sid if isinstance(txt, Str) and txt.s == "uv" else other

    def eval_expr_wrapper(I_, args, node):
        ex = I_.deref(args[2])
        inner = ex.inner if isinstance(ex, Rc) else ex
        if isinstance(inner, Opaque) or (isinstance(inner, Struct) and "__sub" in inner.fields):
            # the failed right-hand side now succeeds / the replacement expression: one Int value
            frame.fields["evalled_values"].items.append(M.v_int(Int(z3.BitVec("rhs_value", 64), 64, True)))
            return ok(NONE)
        return I_.call_user_body(P.fns["eval_expr"], args)
    I.natives["eval_expr"] = eval_expr_wrapper
    I.natives["IdGenerator::intern_symbol"] = intern
    I.loop_bound = 12
    responses = []
    seq = ([":forget_local uv"] if forget else []) + [fin, ":resume"]
    for cmd in seq:
        r = I.call_user(P.fns["handle_run_request"], [Str(cmd), env, session, NONE, NONE, NONE, NONE])
        responses.append((cmd, I.type_name(I.deref(r)) or type(r).__name__))
    return {"I": I, "responses": responses, "seq": seq}


def native_history(kind, seq):
    op = "=" if kind == "Assign" else "+="
    hist = ["let uv = 1", f"uv {op} 10 / 0"] + list(seq) + ["1 + 1"]
    s = native.JsonSession()
    try:
        outs = [native.response_summary(s.request(h, timeout=6)[0])[:2] for h in hist]
        dead = (not s.alive()) or any(o[0] == "none" for o in outs)
    finally:
        s.close()
    return {"reproduced": dead, "artefact": {"requests": hist}, "detail": f"responses={outs}"}


def run_suspended_kernel(C, P):
    C.bounds["suspended_assignment"] = {"parents": ["uv = <rhs>", "uv += <rhs>"], "history": "rhs failed; optional `:forget_local uv`; "
                                        "one of :skip / :replace 42 / :resume; :resume"}
    C.assumptions += ["suspended-assignment kernel: one local in one block of the top-level frame; the right-hand side yields a symbolic Int "
                      "when it is finally evaluated or replaced"]
    n = 0
    for kind in ("Assign", "AssignUpdate"):
        for forget in (True, False):
            for fin in FINISHERS:
                try:
                    res = explore(lambda ctx, kind=kind, fin=fin, forget=forget: run_suspended(ctx, P, kind, fin, forget), max_paths=3000)
                except (Unsupported, UnwindExceeded) as ex:
                    C.inconclusive.append(f"suspended {kind} / {fin} not encodable: {str(ex)[:200]}")
                    continue
                C.note_paths(res)
                seq = ([":forget_local uv"] if forget else []) + [fin, ":resume"]
                for i, r in enumerate(res):
                    if r.kind == "ok":
                        n += 1
                        C.note_interp(r.value["I"])
                        bad = [c for c, t in r.value["responses"] if t != "Response"]
                        if bad:
                            C.prove_deferred(f"suspended/{kind}/{seq}/path{i}:one-response", r.pc, False,
                                             site=f"suspended/{kind}/{' '.join(seq)}/no-response", what=f"{bad} does not produce a Response",
                                             replay=lambda m, kind=kind, seq=seq: (lambda: native_history(kind, seq)), soft=r.tainted)
                        continue
                    if r.kind != "panic":
                        continue
                    p = r.value
                    C.prove_deferred(f"suspended/{kind}/{seq}/path{i}:no-panic:{p.kind}", r.pc, False,
                                     site=f"suspended/{kind}/{' '.join(seq)}/{p.fn}/{p.kind}",
                                     what=f"`uv {'=' if kind == 'Assign' else '+='} <failed rhs>` suspended, then {seq}: {p}",
                                     replay=lambda m, kind=kind, seq=seq: (lambda: native_history(kind, seq)), soft=r.tainted,
                                     model_desc=lambda m, kind=kind, seq=seq, p=p: {"parent": kind, "commands": seq, "panic": str(p)})
    C.reach("suspended/histories-played", [z3.BoolVal(n > 0)])
    for kind in ("Assign", "AssignUpdate"):
        rep = native_history(kind, [":forget_local uv", ":skip", ":resume"])
        if rep["reproduced"]:
            C.validation_mismatch(f"suspended {kind} history kills the unchanged session: {rep['detail'][:200]}")
        else:
            C.validated_against_impl()
