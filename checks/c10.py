#!/usr/bin/env python3
"""C10 — `:abort` returns the session to a clean top level.

Executes the real `handle_run_request(":abort")` (Command::from_string ->
run_command's Abort arm -> Stack::pop_to_toplevel) from an arbitrary stopped
machine state (1..3 frames; every per-frame vector of arbitrary length within
the bound), then the real `:resume` arm (eval_to_response -> eval), and asks
whether anything of the aborted evaluation survives.
"""
import os
import sys

sys.path.insert(0, os.path.dirname(os.path.dirname(os.path.abspath(__file__))))
import z3  # noqa: E402

from rsx.core import *  # noqa
from rsx import stdmodels  # noqa
from vlib.check import Check, run_check  # noqa
from vlib import machine as M  # noqa
from vlib import native  # noqa


def tok(label):
    """An identity token standing for an arbitrary element."""
    return Struct("Tok", {"label": label}, partial=True)


def build_state(ctx, maxlen):
    """Arbitrary stopped state: lengths chosen by (solver-checked) forks."""
    nframes = 1 + ctx.choose([True, True, True])
    frames = []
    for fi in range(nframes):
        if fi == 0:
            n_exprs = ctx.choose([True] * (maxlen + 1))
            n_vals = 1 + ctx.choose([True] * maxlen)
            n_blocks = 1 + ctx.choose([True] * maxlen)
            n_next = ctx.choose([True] * 3)
        else:
            n_exprs, n_vals, n_blocks, n_next = 1, 1, 2, 1
        exprs = [(Enum("ExpressionState", "NotEvaluated", []), Rc(tok(f"expr{fi}.{i}"))) for i in range(n_exprs)]
        vals = [M.mk_value(Opaque(f"val{fi}.{i}")) for i in range(n_vals)]
        fr = M.mk_frame(values=vals, exprs=exprs, nblocks=n_blocks)
        fr.fields["bindings_next_block"] = Vec([(tok(f"sym{fi}.{i}"), M.mk_value(Opaque("nb"))) for i in range(n_next)])
        frames.append(fr)
    return frames


def main():
    C = Check("C10", "`:abort` returns the session to a clean top level")
    P = M.program()
    maxlen = 3 if C.tier == "quick" else 4
    C.bounds = {"frames": "1..3", "frame0_vector_lengths": f"exprs_to_eval 0..{maxlen}, evalled_values 1..{maxlen}, "
                f"block_bindings 1..{maxlen}, bindings_next_block 0..2", "elements": "opaque identity tokens",
                "steps": "`:abort` arm, then `:resume` arm (eval prologue)"}
    C.assumptions += M.NATIVE_NOTES + [
        "vector elements are opaque identity tokens (the abort path never inspects them)",
        "frame 0 holds at least the bottom value and block 0 (type invariant of Stack::new)",
        "Response construction (top_frame_name, display) is opaque",
    ]

    def run(ctx):
        frames = build_state(ctx, maxlen)
        f0 = frames[0]
        before = {
            "bottom": f0.fields["evalled_values"].items[0],
            "block0": f0.fields["bindings"].fields["block_bindings"].items[0],
            "shape": {"frames": len(frames), "exprs": len(f0.fields["exprs_to_eval"].items),
                      "values": len(f0.fields["evalled_values"].items),
                      "blocks": len(f0.fields["bindings"].fields["block_bindings"].items),
                      "next": len(f0.fields["bindings_next_block"].items)},
        }
        env = M.mk_env(frames, extra={"ticks": Int(0, 64, False), "tick_limit": NONE, "stack_limit": NONE,
                                      "stop_at_expr_id": NONE, "profile": False})
        session = Struct("Session", {"interrupted": Struct("AtomicBool", {"__atomic": False}), "trace_exprs": False},
                         partial=True)
        I = M.mk_interp(P, ctx)
        resp = I.call_user(P.fns["handle_run_request"], [Str(":abort"), env, session, NONE, NONE, NONE, NONE])
        after_abort = snapshot(env)
        # then :resume, which must find nothing to do (only meaningful if nothing is pending; a pending
        # entry is already reported by the no-pending-evaluation obligation)
        if after_abort["frames"] == 1 and not after_abort["exprs"]:
            resp2 = I.call_user(P.fns["handle_run_request"], [Str(":resume"), env, session, NONE, NONE, NONE, NONE])
            after_resume = snapshot(env)
        else:
            resp2, after_resume = None, None
        return {"I": I, "before": before, "after_abort": after_abort, "after_resume": after_resume,
                "resp": resp, "resp2": resp2, "env": env}

    def snapshot(env):
        fr = env.fields["stack"].fields["0"].items
        f0 = fr[0] if fr else None
        return {"frames": len(fr),
                "exprs": list(f0.fields["exprs_to_eval"].items) if f0 else None,
                "values": list(f0.fields["evalled_values"].items) if f0 else None,
                "blocks": list(f0.fields["bindings"].fields["block_bindings"].items) if f0 else None,
                "next": list(f0.fields["bindings_next_block"].items) if f0 else None}

    def replay_for(shape):
        def replay(_m):
            # user-visible oracle: after :abort, :resume must do nothing and the session must keep serving
            body = 'println("before")\nlet y = 1 + ""\nprintln("LEAK")'
            if shape["blocks"] > 1:
                body = 'if True {\n' + body + '\n}\nprintln("LEAK2")'
            if shape["frames"] > 1:
                body = "fun f() {\n" + body + "\n}\nf()\nprintln(\"LEAK3\")"
            s = native.JsonSession()
            try:
                j1, p1, _ = s.request(body, timeout=10)
                j2, p2, _ = s.request(":abort", timeout=10)
                j3, p3, _ = s.request(":resume", timeout=10)
                j4, p4, _ = s.request("1 + 1", timeout=10)
                s3, s4 = native.response_summary(j3), native.response_summary(j4)
                bad = ("LEAK" in p3) or s3[0] in ("none", "err") or s4[:2] != ("ok", "2") or not s.alive()
                detail = f"resume->{s3[:2]} printed={p3!r}; probe->{s4[:2]} alive={s.alive()}"
                if bad:
                    return {"reproduced": True, "artefact": {"requests": [body, ":abort", ":resume", "1 + 1"]},
                            "detail": detail}
            finally:
                s.close()
            # the property's own oracle: after :abort every continuation answers as it does in a fresh session
            defs = "fun f() {\n1\n}" if shape["frames"] > 1 else None
            for cont in CONTINUATIONS:
                got = script(([body, ":abort"]), cont)
                want = script(([defs] if defs else []), cont)
                if got != want:
                    return {"reproduced": True, "artefact": {"requests": [body, ":abort"] + cont,
                                                             "aborted_session": got, "fresh_session": want},
                            "detail": f"after :abort {cont} answers {got}, a fresh session {want}"}
            return {"reproduced": False, "artefact": {"requests": [body, ":abort", ":resume", "1 + 1"]},
                    "detail": detail + f"; {len(CONTINUATIONS)} continuations answer as in a fresh session"}
        return replay

    CONTINUATIONS = [
        ["1 + nosuchvar", ":skip", "1 + 1"],
        ["1 + nosuchvar", ":replace 3", "1 + 1"],
        [":skip", "1 + 1"],
        [":replace 7", "2 + 2"],
        ["let zz = 5", "zz + 1"],
        ["y"],
    ]

    def script(prefix, cont):
        s = native.JsonSession()
        try:
            for r in prefix:
                s.request(r, timeout=10)
            out = []
            for r in cont:
                j, p, _ = s.request(r, timeout=10)
                out.append([list(native.response_summary(j)[:2]), p])
            out.append(s.alive())
            return out
        finally:
            s.close()

    results = explore(run)
    C.note_paths(results)
    n = 0
    for i, r in enumerate(results):
        if r.kind == "panic":
            C.prove(f"path{i}:no-panic", [], False, site=f"abort/panic/{r.value.fn}:{r.value.line}",
                    what=f"`:abort`/`:resume` panics: {r.value}", replay=replay_for({"blocks": 2, "frames": 2}))
            continue
        if r.kind != "ok":
            continue
        n += 1
        v = r.value
        C.note_interp(v["I"])
        b, a, a2 = v["before"], v["after_abort"], v["after_resume"]
        sh = b["shape"]
        tag = f"frames{sh['frames']}/exprs{sh['exprs']}/values{sh['values']}/blocks{sh['blocks']}/next{sh['next']}"
        clean = (a["frames"] == 1 and len(a["values"]) == 1 and a["values"][0] is b["bottom"]
                 and len(a["blocks"]) == 1 and a["blocks"][0] is b["block0"])
        C.prove(f"{tag}:frames-values-blocks-reset", r.pc, clean, site="abort/locals-or-frames-survive",
                what="after :abort a frame, pending value or block of the aborted evaluation survives",
                replay=replay_for(sh), model_desc=lambda m, sh=sh: sh)
        nopending = len(a["exprs"]) == 0 and len(a["next"]) == 0
        C.prove(f"{tag}:no-pending-evaluation", r.pc, nopending, site="abort/pending-exprs-survive",
                what="after :abort the top frame still holds pending expressions (a following :resume runs them)",
                replay=replay_for(sh), model_desc=lambda m, sh=sh: sh)
        if a2 is None:
            continue
        untouched = (a2["frames"] == 1 and len(a2["values"]) == len(a["values"]) and
                     all(x is y for x, y in zip(a2["values"], a["values"])) and len(a2["exprs"]) == len(a["exprs"])
                     and len(a2["blocks"]) == len(a["blocks"]))
        C.prove(f"{tag}:resume-after-abort-is-a-noop", r.pc, untouched, site="abort/resume-not-noop",
                what=":resume after :abort changes the machine state", replay=replay_for(sh),
                model_desc=lambda m, sh=sh: sh)
        if i % 40 == 0:
            C.sample({"state": sh, "obligations": ["frames-values-blocks-reset", "no-pending-evaluation",
                                                    "resume-after-abort-is-a-noop"]})
    C.reach("abort-step-returns", [z3.BoolVal(n > 0)])

    # translator validation: the same scripted sessions the replay uses, on the unchanged semantics
    for sh in ({"blocks": 1, "frames": 1}, {"blocks": 2, "frames": 1}, {"blocks": 2, "frames": 2}):
        rep = replay_for(sh)(None)
        C.validated_against_impl()
        C.extra.setdefault("native_sessions", []).append({"shape": sh, "detail": rep["detail"]})

    C.models_used |= stdmodels.USED
    C.finish()


if __name__ == "__main__":
    run_check(main)
