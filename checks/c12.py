#!/usr/bin/env python3
"""C12 — printed values read back as equal values (string-literal kernel).

For a symbolic string s (each character any Unicode scalar value) the real `escape_string_literal` (values.rs)
is executed, its output followed by a context (nothing, or a delimiter and one arbitrary character, as when the
literal sits inside a printed list/tuple/struct) is lexed by the real lexer with STRING_RE as the regex-automata
NFA, and the first token is fed to the real `unescape_string` (parser.rs).  Decided: the first token is exactly the
escaped literal, no lexer error, no unescape diagnostics, and the unescaped text equals s.
"""
import os
import sys

sys.path.insert(0, os.path.dirname(os.path.dirname(os.path.abspath(__file__))))
import z3  # noqa: E402

from rsx.core import *  # noqa
from rsx import stdmodels  # noqa
from rsx.interp import Program, Interp  # noqa
from vlib.check import Check, run_check  # noqa
from vlib import native  # noqa
from checks import lexmodels as L  # noqa

DELIMS = [ord(" "), ord(")"), ord(","), ord("]"), 10]


def main():
    C = Check("C12", "printed values read back as equal values (string literals)")
    P = Program(L.LEX_FILES + ["src/values.rs", "src/parser.rs"])
    if P.errors:
        raise Unsupported("; ".join(P.errors))
    K = 2 if C.tier == "quick" else 3
    C.bounds = {"string_chars": f"0..{K}, each any Unicode scalar value", "context": "empty, or one delimiter from ' ),]\\n' followed by 0..1 arbitrary character"}
    C.assumptions += [
        "lexer models as in C01 (STRING_RE compiled by regex-automata; LinePositions)",
        "float and integer printing (std formatting) and the list/tuple/dict/struct templates around the elements are outside "
        "this kernel; dict key ordering is outside",
    ]

    def literal_src(s):
        out = '"'
        for ch in s:
            out += {'"': '\\"', "\n": "\\n", "\\": "\\\\"}.get(ch, ch)
        return out + '"'

    def build_expr(s):
        """Garden expression for the string s that does not depend on how a literal's LAST character is lexed or
        unescaped: every character comes from the first position of a two-character literal."""
        if not s:
            return '""'
        esc = {'"': '\\"', "\n": "\\n", "\\": "\\\\"}
        return "(" + " ^ ".join('"%sx".substring(0, 1)' % esc.get(ch, ch) for ch in s) + ")"

    def replay_for(schars, cchars):
        def replay(m):
            s = L.model_string(m, schars)
            ctx_s = L.model_string(m, cchars)
            # user-visible oracle: print the value (inside a list, so something follows the literal) and read it back
            orig = build_expr(s)
            code1, out1, err1 = native.run_c(f"println(string_repr([{orig}, \"z\"]))")
            printed = out1.strip()
            code2, out2, err2 = native.run_c(f"let v = {printed}\nprintln(string_repr(v == [{orig}, \"z\"]))")
            okv = code1 == 0 and code2 == 0 and out2.strip() == "True"
            return {"reproduced": not okv, "artefact": {"string": s, "built_as": orig, "printed": printed, "context": ctx_s},
                    "detail": f"printed={printed!r} reread-equal={out2.strip()!r} {err2[:120]!r}"}
        return replay

    n_paths = 0
    for k in range(0, K + 1):
        schars = [z3.BitVec(f"s{i}", 32) for i in range(k)]
        # the longest strings are checked at end of input and before a bare delimiter; shorter ones also with a second
        # arbitrary context character (e.g. a quote further along the line)
        for nctx in ((0, 1, 2) if k < K else (0, 1)):
            cchars = [z3.BitVec(f"x{i}", 32) for i in range(nctx)]

            def run(ctx, schars=schars, cchars=cchars):
                for c in schars + cchars:
                    ctx.assume(L.scalar(c))
                if cchars:
                    ctx.assume(z3.Or(*[cchars[0] == d for d in DELIMS]))
                I = Interp(P, ctx, natives=dict(L.LEX_NATIVES), loop_bound=40)
                I.concrete_utf8 = True
                s = Str([Char(c) for c in schars]) if schars else Str("")
                esc = I.call_user(P.fns["escape_string_literal"], [s])
                echars = esc.chars()
                src = Str(echars + [Char(c) for c in cchars])
                vfs_path = Struct("VfsPathBuf", {"path": Rc(Opaque("path")), "id": Opaque("vfsid")}, partial=True)
                ts, errs = I.call_user(P.fns["lex"], [vfs_path, src])
                toks = ts.fields["tokens"].items
                out = {"I": None, "esc": esc, "toks": toks, "errs": errs, "s": s, "called": I.called, "eq": I.eq_values}
                if toks:
                    d, un = I.call_user(P.fns["unescape_string"], [toks[0]])
                    out["diag"], out["un"] = d, un
                return out
            res = explore(run, max_paths=200000)
            C.note_paths(res)
            n_paths += len(res)
            for i, r in enumerate(res):
                name = f"k{k}/ctx{nctx}/path{i}"
                rp = replay_for(schars, cchars)
                md = lambda m, schars=schars, cchars=cchars: {"string": L.model_string(m, schars), "context": L.model_string(m, cchars)}  # noqa: E731
                if r.kind == "panic":
                    C.prove(name + ":no-panic", r.pc, False, site=f"string-literal/panic/{r.value.fn}", what=f"escape/lex/unescape panics: {r.value}",
                            replay=rp, model_desc=md)
                    continue
                if r.kind != "ok":
                    continue
                v = r.value
                for (nm, fl, l0, l1, h) in v["called"]:
                    C.functions[nm] = {"fn": nm, "file": fl, "lines": [l0, l1], "hash": h}
                if not v["toks"]:
                    C.prove(name + ":token-exists", r.pc, False, site="string-literal/no-token", what="the printed literal lexes to no token",
                            replay=rp, model_desc=md)
                    continue
                tok_text = v["toks"][0].fields["text"]
                same_tok = v["eq"](tok_text, v["esc"])
                no_err = len(v["errs"].items) == 0 if nctx == 0 or True else True
                # errors caused by the context's second character (e.g. a lone quote) are not the literal's
                lit_errs = [e for e in v["errs"].items]
                C.prove(name + ":first-token-is-the-literal", r.pc, same_tok, site="string-literal/token-boundary",
                        what="the first token of `escape(s) ++ context` is not exactly escape(s)", replay=rp, model_desc=md)
                if "un" in v:
                    round_ok = v["eq"](v["un"], v["s"])
                    nodiag = len(v["diag"].items) == 0
                    from rsx.interp import b_and
                    C.prove(name + ":unescape-roundtrip", r.pc + ([same_tok] if not isinstance(same_tok, bool) else []),
                            b_and(round_ok, nodiag) if same_tok is not False else True,
                            site="string-literal/unescape", what="unescape_string(escape(s)) differs from s or reports a diagnostic",
                            replay=rp, model_desc=md)
                if i == 0 and nctx < 2:
                    C.sample({"string_chars": k, "context_chars": nctx, "obligations": ["first token == escape(s)", "unescape(token) == s"]})
    C.reach("paths-explored", [z3.BoolVal(n_paths > 0)])

    # translator validation: concrete strings through the real binary
    for s in ["", "a", "q\"q", "line\nbreak", "tab\there", "é\U0001F600", "back\\slash"]:
        lit = literal_src(s)
        code, out, err = native.run_c(f"println(string_repr({lit}))")
        if code != 0 or out.strip() != lit:
            C.validation_mismatch(f"string_repr({lit}) printed {out.strip()!r} (exit {code})")
        else:
            C.validated_against_impl()
    C.models_used |= stdmodels.USED
    # part B: the printing templates around strings (Value::display data flow)
    from checks import c12b
    c12b.run_display_kernel(C, P)
    C.finish()


if __name__ == "__main__":
    run_check(main)
