"""C12 part B — the printing templates around strings (data-flow kernel of `Value::display`).

Part A decides that `escape_string_literal` followed by the real lexer and `unescape_string` is the identity on
strings.  A printed aggregate reads back as an equal value only if every string in it — list and tuple elements, dict
keys and dict values — is printed *through* `escape_string_literal` and the brackets, separators and `=>` around them
are the literal syntax.  Here the real `Value::display` is executed on List / Tuple / Dict / String values whose
strings are atomic tokens, with `escape_string_literal` replaced by a stub returning a marker `ESC(token)`, nested
`display` calls returning a marker `DISP(child)`, and `format!` modelled positionally (`{}` inserts the text, `{:?}`
inserts a `DEBUG(..)` marker: Rust's debug escapes are not Garden's).  Decided on every path: the result is exactly
the literal template over the markers.
"""
import re

import z3

from rsx.core import *  # noqa
from rsx.interp import Interp
from vlib import native

ESC_L, ESC_R, DISP_L, DISP_R, DBG_L, DBG_R = "\ue000", "\ue001", "\ue002", "\ue003", "\ue004", "\ue005"
NUM_L, NUM_R = "\ue006", "\ue007"


def num_marker(v):
    """std's `{}` text of a number, as a marker naming the term that is formatted (part C)."""
    if isinstance(v, Float):
        return NUM_L + "F:" + (repr(v.v) if not hasattr(v.v, "sexpr") else v.v.sexpr()) + NUM_R
    if isinstance(v, Int):
        return NUM_L + "I:" + (str(v.v) if v.conc else v.v.sexpr()) + NUM_R
    return None


def esc(tok):
    return ESC_L + tok + ESC_R


def disp(tok):
    return DISP_L + tok + DISP_R


def format_model(I, fmt, args, node):
    """format!(fmt, args..) for positional `{}` / `{:?}` placeholders over concrete strings; None = not modelled."""
    out, pos = "", 0
    vals = [I.deref(a) for a in args]
    i = 0
    for m in re.finditer(r"\{\{|\}\}|\{([^{}]*)\}", fmt):
        out += fmt[pos:m.start()]
        pos = m.end()
        if m.group(0) == "{{":
            out += "{"
            continue
        if m.group(0) == "}}":
            out += "}"
            continue
        spec = m.group(1)
        if re.fullmatch(r"[A-Za-z_][A-Za-z0-9_]*", spec or ""):
            # inline named capture `{name}` of a number in scope (part C); anything else stays opaque
            sc, found = I.lookup(spec)
            mk = num_marker(I.deref(sc[spec])) if found else None
            if mk is None:
                return None
            out += mk
            continue
        if spec not in ("", ":?"):
            return None         # other formatting: leave to the opaque default
        if i >= len(vals):
            return None
        v = vals[i]
        i += 1
        if spec == "" and num_marker(v) is not None:
            out += num_marker(v)
            continue
        if not (isinstance(v, Str) and v.s is not None and all(c.conc for c in v.chars())):
            return None
        txt = "".join(chr(c.v) for c in v.chars())
        out += txt if spec == "" else DBG_L + txt + DBG_R
    out += fmt[pos:]
    return Str(out)


def mk_value(inner):
    return Struct("Value", {"0": Rc(inner)})


def child(tok):
    # a nested value: its own printing is the stubbed recursive call
    return mk_value(Enum("Value_", "Int", [Int(0, 64, True)])), tok


def run_display(ctx, P, kind, n):
    labels = {}

    def nat_escape(I, a, node):
        s = I.deref(a[0])
        return Str(esc("".join(chr(c.v) for c in s.chars()) if isinstance(s, Str) and s.s is not None and all(c.conc for c in s.chars()) else "?"))

    def nat_display(I, a, node):
        v = I.deref(a[0])
        return Str(disp(labels.get(id(v.fields["0"]), "?")))
    I = Interp(P, ctx, natives={"escape_string_literal": nat_escape, "Value::display": nat_display}, opaque_fns=[])
    I.format_model = format_model
    I.loop_bound = 8
    kids = []
    for i in range(n):
        v, t = child(f"V{i}")
        labels[id(v.fields["0"])] = t
        kids.append(v)
    want_alt = None
    if kind == "Float":
        fv = Float(z3.FP("c12_f", z3.Float64()))
        ctx.assume(z3.Not(z3.Or(z3.fpIsNaN(fv.v), z3.fpIsInf(fv.v))))
        val = mk_value(Enum("Value_", "Float", [fv]))
        want = num_marker(fv)
        want_alt = want + ".0"
    elif kind == "Int":
        iv = Int(z3.BitVec("c12_i", 64), 64, True)
        val = mk_value(Enum("Value_", "Int", [iv]))
        want = num_marker(iv)
    elif kind == "String":
        val = mk_value(Enum("Value_", "String", [Str("S0")]))
        want = esc("S0")
    elif kind == "List":
        val = mk_value(Enum("Value_", "List", {"items": Vec(kids), "elem_type": Opaque("ty")}))
        want = "[" + ", ".join(disp(f"V{i}") for i in range(n)) + "]"
    elif kind == "Tuple":
        val = mk_value(Enum("Value_", "Tuple", {"items": Vec(kids), "item_types": Opaque("tys")}))
        want = "(" + ", ".join(disp(f"V{i}") for i in range(n)) + ("," if n == 1 else "") + ")"
    elif kind == "Dict":
        # keys in reverse insertion order: the printed order is the sorted one
        keys = [f"K{i}" for i in range(n)]
        ents = [(Str(k), kids[i]) for i, k in reversed(list(enumerate(keys)))]
        val = mk_value(Enum("Value_", "Dict", {"items": Map(ents), "value_type": Opaque("ty")}))
        want = "Dict[" + ", ".join(esc(keys[i]) + " => " + disp(f"V{i}") for i in range(n)) + "]"
    else:
        raise Unsupported(kind)
    r = I.call_user(P.methods[("Value", "display")], [val, Opaque("env")], "Value", skip_native=True)
    r = I.deref(r)
    got = None
    if isinstance(r, Str) and r.s is not None:
        cs = r.chars()
        if all(c.conc for c in cs):
            got = "".join(chr(c.v) for c in cs)
    if want_alt is not None and got == want_alt:
        want = want_alt
    return {"I": I, "got": got, "want": want, "kind": kind, "n": n}


NASTY = ["\u00e9", "e\u0301", "x\u007f", 'q"r', "b\\", "\u2764\ufe0f", "tab\there"]   # no CR: text-mode pipes translate it


def lit(s):
    return '"' + "".join({'"': '\\"', "\n": "\\n", "\\": "\\\\"}.get(ch, ch) for ch in s) + '"'


FLOATS = ["1.0", "2.0", "0.5", "0.1", "123456789.125", "9500000000000000000.0", "9223372036854775808.0", "9999999999999997952.0",
          "10000000000000000000.0", "1000000000000000000000.0", "18446744073709551616.0", "4503599627370497.5",
          "0.000000000000000000001", "(0.0 *. (0.0 -. 1.0))", "(0.0 -. 9500000000000000000.0)", "(0.0 -. 2.5)"]
INTS = ["0", "1", "(0 - 1)", "9223372036854775807", "((0 - 9223372036854775807) - 1)", "1000000"]


def native_roundtrip(kind):
    """Print a value of this kind holding awkward strings in every string position and read the printed text back."""
    bad = []
    if kind in ("Float", "Int"):
        for src in (FLOATS if kind == "Float" else INTS):
            for wrap in ("{}", "[{}]", "Some({})"):
                e = wrap.format(src)
                code1, out1, err1 = native.run_c(f"println(string_repr({e}))")
                printed = out1.rstrip("\n")
                code2, out2, err2 = native.run_c(f"let v = {printed}\nprintln(string_repr(v == {e}))")
                if not (code1 == 0 and code2 == 0 and out2.strip() == "True"):
                    bad.append({"value": e, "printed": printed[:80], "reread": (out2 + err2)[:160]})
        return {"reproduced": bool(bad), "artefact": bad[:2], "detail": f"{len(bad)} printed numbers do not read back as equal values"}
    for s in NASTY:
        forms = {"String": [lit(s)], "List": [f"[{lit(s)}, \"z\"]"], "Tuple": [f"({lit(s)}, 1)", f"({lit(s)},)"],
                 "Dict": [f"Dict[{lit(s)} => 1]", f"Dict[\"k\" => {lit(s)}]", f"Dict[{lit(s)} => [{lit(s)}]]"]}[kind]
        for src in forms:
            code1, out1, err1 = native.run_c(f"println(string_repr({src}))")
            printed = out1.rstrip("\n")
            code2, out2, err2 = native.run_c(f"let v = {printed}\nprintln(string_repr(v == {src}))")
            if not (code1 == 0 and code2 == 0 and out2.strip() == "True"):
                bad.append({"value": src, "printed": printed, "reread": (out2 + err2)[:160]})
    return {"reproduced": bool(bad), "artefact": bad[:2], "detail": f"{len(bad)} printed values do not read back as equal values"}


def run_display_kernel(C, P):
    max_n = 2 if C.tier == "quick" else 3
    C.bounds["display_templates"] = {"kinds": ["String", "List", "Tuple", "Dict"], "elements": f"0..{max_n}",
                                     "strings": "atomic tokens (their characters are part A's subject)"}
    C.assumptions += [
        "display kernel: escape_string_literal and nested display calls are stubs returning markers; format! is modelled for "
        "positional `{}` / `{:?}` placeholders over text; enum, struct, function and number printing are outside this kernel",
    ]
    n_ok = 0
    C.bounds["display_numbers"] = {"Float": "any finite f64 (symbolic)", "Int": "any i64 (symbolic)"}
    C.assumptions += ["part C (numbers): std's `{}` formatting of f64 / i64 is a marker naming the formatted term (trusted to be the shortest "
                      "round-trip text); decided: the printed text is that marker of the value itself, for floats optionally followed by `.0` "
                      "(whether `.0` is needed is read off the real text and is covered by the native round trip only)"]
    for kind in ("Float", "Int", "String", "List", "Tuple", "Dict"):
        for n in ([0] if kind in ("String", "Float", "Int") else range(0, max_n + 1)):
            try:
                res = explore(lambda ctx, kind=kind, n=n: run_display(ctx, P, kind, n), max_paths=2000)
            except (Unsupported, UnwindExceeded) as ex:
                C.inconclusive.append(f"display of {kind}/{n} not encodable: {str(ex)[:200]}")
                continue
            C.note_paths(res)
            for i, r in enumerate(res):
                if r.kind == "panic":
                    C.prove(f"display/{kind}/{n}/path{i}:no-panic", r.pc, False, site=f"display/{kind}/panic",
                            what=f"printing a {kind} panics: {r.value}", replay=lambda m, kind=kind: native_roundtrip(kind))
                    continue
                if r.kind != "ok":
                    continue
                v = r.value
                C.note_interp(v["I"])
                n_ok += 1
                shown = (v["got"] or "<not text>").replace(ESC_L, "ESC(").replace(ESC_R, ")").replace(DISP_L, "DISP(") \
                    .replace(DISP_R, ")").replace(DBG_L, "DEBUG(").replace(DBG_R, ")").replace(NUM_L, "FMT(").replace(NUM_R, ")")
                C.prove(f"display/{kind}/{n}/path{i}:literal-template", r.pc, v["got"] == v["want"], site=f"display/{kind}/template",
                        what=f"a {kind} with {n} elements prints as {shown!r}, which is not the literal template over escaped strings",
                        replay=lambda m, kind=kind: native_roundtrip(kind), model_desc=lambda m, shown=shown: shown)
                if i == 0 and n == max_n:
                    C.sample({"display_kind": kind, "elements": n, "printed_template": shown})
    C.reach("display/templates-checked", [z3.BoolVal(n_ok > 0)])
    for kind in ("Float", "Int", "String", "List", "Tuple", "Dict"):
        rep = native_roundtrip(kind)
        if rep["reproduced"]:
            C.validation_mismatch(f"awkward strings in a {kind} do not round-trip on the unchanged tree: {rep['artefact']}")
        else:
            C.validated_against_impl()
