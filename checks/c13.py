#!/usr/bin/env python3
"""C13 — `==` is structural equality on values.

The real `impl PartialEq for Value_` (values.rs) — reached through the derived
`PartialEq for Value` over `Rc<Value_>` — is executed on two independently
built symbolic value templates (symbolic variant, 64-bit ints, doubles, string
atoms, lists/tuples of symbolic length, dicts, Bool/Unit/Option/Result values,
structs) by merged per-invocation summaries, and z3 decides in single queries
that it coincides with structural equality, and that it is reflexive, symmetric
and transitive.
"""
import os
import sys

sys.path.insert(0, os.path.dirname(os.path.dirname(os.path.abspath(__file__))))
import z3  # noqa: E402

from rsx.core import *  # noqa
from rsx import stdmodels  # noqa
from rsx.interp import Program, Interp  # noqa
from vlib.check import Check, run_check  # noqa
from vlib import native  # noqa

FILES = ["src/values.rs", "src/garden_type.rs", "src/parser/ast.rs", "src/eval.rs", "src/env.rs"]
STRS = ["", "a", "b", "ab"]
ENUM_TYPES = ["Bool", "Unit", "Option", "Result"]
STRUCT_TYPES = ["P", "Q"]
LIT_VARIANTS = ["Int", "Float", "String", "List", "Tuple", "Dict", "EnumVariant", "Struct"]
MAXN = 2


class ValueSpace:
    def __init__(self, P, depth):
        self.P, self.depth = P, depth
        self.variants = P.variant_names("Value_")
        self.summaries = {}
        self.summary_paths = 0
        self.panics = []

    def vars(self, l):
        return {"tag": z3.Int(f"{l}_tag"), "i": z3.BitVec(f"{l}_i", 64), "f": z3.FP(f"{l}_f", z3.Float64()),
                "s": z3.Int(f"{l}_s"), "n": z3.Int(f"{l}_n"), "ety": z3.Int(f"{l}_ety"), "idx": z3.BitVec(f"{l}_idx", 64),
                "sty": z3.Int(f"{l}_sty"), "k0": z3.Int(f"{l}_k0"), "k1": z3.Int(f"{l}_k1")}

    def level(self, l):
        return l.count(".")

    def kids(self, l):
        return [f"{l}.{i}" for i in range(MAXN)]

    def has_payload(self, v):
        return z3.Or(z3.And(v["ety"] == ENUM_TYPES.index("Option"), v["idx"] == 0), v["ety"] == ENUM_TYPES.index("Result"))

    def wf(self, l):
        v = self.vars(l)
        V = self.variants
        allowed = [V.index(x) for x in LIT_VARIANTS]
        leaf = self.level(l) >= self.depth
        cs = [z3.Or(*[v["tag"] == a for a in allowed]), v["s"] >= 0, v["s"] < len(STRS), v["n"] >= 0, v["n"] <= MAXN,
              v["ety"] >= 0, v["ety"] < len(ENUM_TYPES), v["sty"] >= 0, v["sty"] < len(STRUCT_TYPES),
              z3.Not(z3.fpIsNaN(v["f"])), z3.Not(z3.fpIsInf(v["f"])),
              v["k0"] >= 0, v["k0"] < len(STRS), v["k1"] >= 0, v["k1"] < len(STRS), v["k0"] != v["k1"],
              z3.Implies(v["ety"] == ENUM_TYPES.index("Bool"), z3.ULE(v["idx"], 1)),
              z3.Implies(v["ety"] == ENUM_TYPES.index("Unit"), v["idx"] == 0),
              z3.Implies(v["ety"] == ENUM_TYPES.index("Option"), z3.ULE(v["idx"], 1)),
              z3.Implies(v["ety"] == ENUM_TYPES.index("Result"), z3.ULE(v["idx"], 1))]
        agg = z3.Or(v["tag"] == V.index("List"), v["tag"] == V.index("Tuple"), v["tag"] == V.index("Dict"))
        if leaf:
            cs.append(z3.Implies(agg, v["n"] == 0))
            cs.append(z3.Implies(v["tag"] == V.index("EnumVariant"), z3.Not(self.has_payload(v))))
            cs.append(v["tag"] != V.index("Struct"))
        else:
            for i, k in enumerate(self.kids(l)):
                cs.append(z3.Implies(z3.And(agg, v["n"] > i), self.wf(k)))
            cs.append(z3.Implies(z3.And(v["tag"] == V.index("EnumVariant"), self.has_payload(v)), self.wf(self.kids(l)[0])))
            cs.append(z3.Implies(v["tag"] == V.index("Struct"), self.wf(self.kids(l)[0])))
        return z3.And(*cs)

    def build(self, l, copy=""):
        """A Value struct (fresh Rc identities: values are built independently)."""
        v = self.vars(l)
        leaf = self.level(l) >= self.depth
        kids = self.kids(l)
        space = self

        def ty_named(atom, table):
            return Enum("Type", "UserDefined", {"kind": Enum("TypeDefKind", "Enum", []),
                                                "name": Struct("TypeName", {"text": AtomStr(atom, table)}), "args": Vec([])})

        def factory(variant):
            def kidvec(kind="Vec"):
                return SymVec([] if leaf else [space.build(k, copy) for k in kids], v["n"], kind)
            if variant == "Int":
                return [Int(v["i"])]
            if variant == "Float":
                return [Float(v["f"])]
            if variant == "String":
                return [AtomStr(v["s"], STRS)]
            if variant == "List":
                return {"items": kidvec("rpds"), "elem_type": Enum("Type", "Any", [])}
            if variant == "Tuple":
                return {"items": kidvec(), "item_types": Vec([])}
            if variant == "Dict":
                ents = [] if leaf else [(AtomStr(v["k0"], STRS), space.build(kids[0], copy)), (AtomStr(v["k1"], STRS), space.build(kids[1], copy))]
                return {"items": SymMap(ents, v["n"]), "value_type": Enum("Type", "Any", [])}
            if variant == "EnumVariant":
                opt = SymEnum("Option", ["Some", "None"], z3.If(space.has_payload(v), 0, 1),
                              lambda vv: ([space.build(kids[0], copy)] if (vv == "Some" and not leaf) else []), label=l + ".payload")
                return {"type_name": Struct("TypeName", {"text": AtomStr(v["ety"], ENUM_TYPES)}),
                        "runtime_type": ty_named(v["ety"], ENUM_TYPES), "variant_idx": Int(v["idx"], 64, False), "payload": opt}
            if variant == "Struct":
                return {"type_name": Struct("TypeName", {"text": AtomStr(v["sty"], STRUCT_TYPES)}),
                        "fields": Vec([(Struct("SymbolName", {"text": Str("f")}), space.build(kids[0], copy))] if not leaf else []),
                        "runtime_type": ty_named(v["sty"], STRUCT_TYPES)}
            vd = space.P.variant("Value_", variant)["fields"]
            if vd["kind"] == "named":
                return {n: Opaque(f"{l}.{n}") for n in vd["names"]}
            return [Opaque(f"{l}.{i}") for i in range(len(vd.get("types", [])))]
        node = SymEnum("Value_", self.variants, v["tag"], factory, label=l)
        return Struct("Value", {"0": Rc(node)})

    # reference: structural equality of two templates
    def ref_eq(self, la, lb):
        a, b = self.vars(la), self.vars(lb)
        V = self.variants
        leaf = self.level(la) >= self.depth

        def tag(name):
            return z3.And(a["tag"] == V.index(name), b["tag"] == V.index(name))
        kids_a, kids_b = self.kids(la), self.kids(lb)

        def kids_eq():
            if leaf:
                return z3.And(a["n"] == 0, b["n"] == 0)
            return z3.And(a["n"] == b["n"], *[z3.Implies(a["n"] > i, self.ref_eq(kids_a[i], kids_b[i])) for i in range(MAXN)])
        cases = [z3.And(tag("Int"), a["i"] == b["i"]),
                 z3.And(tag("Float"), a["f"] == b["f"]),          # same bits = same printed form for finite floats
                 z3.And(tag("String"), a["s"] == b["s"]),
                 z3.And(tag("List"), kids_eq()), z3.And(tag("Tuple"), kids_eq())]
        # dicts: same key set with equal values (keys distinct within a dict)
        if leaf:
            cases.append(z3.And(tag("Dict"), a["n"] == 0, b["n"] == 0))
        else:
            e0, e1 = self.ref_eq(kids_a[0], kids_b[0]), self.ref_eq(kids_a[1], kids_b[1])
            x01, x10 = self.ref_eq(kids_a[0], kids_b[1]), self.ref_eq(kids_a[1], kids_b[0])
            d1 = z3.And(a["n"] == 1, b["n"] == 1, a["k0"] == b["k0"], e0)
            d2 = z3.And(a["n"] == 2, b["n"] == 2, z3.Or(z3.And(a["k0"] == b["k0"], a["k1"] == b["k1"], e0, e1),
                                                         z3.And(a["k0"] == b["k1"], a["k1"] == b["k0"], x01, x10)))
            cases.append(z3.And(tag("Dict"), z3.Or(z3.And(a["n"] == 0, b["n"] == 0), d1, d2)))
        pa, pb = self.has_payload(a), self.has_payload(b)
        pay = z3.BoolVal(True) if leaf else z3.Implies(pa, self.ref_eq(kids_a[0], kids_b[0]))
        cases.append(z3.And(tag("EnumVariant"), a["ety"] == b["ety"], a["idx"] == b["idx"], pa == pb, pay))
        if not leaf:
            cases.append(z3.And(tag("Struct"), a["sty"] == b["sty"], self.ref_eq(kids_a[0], kids_b[0])))
        return z3.Or(*cases)

    # merged execution of Value_::eq on two template labels
    def real_eq(self, la, lb):
        key = (la, lb)
        if key in self.summaries:
            return self.summaries[key]
        fn = self.P.methods[("Value_", "eq")]
        space = self

        def native(I, args, node):
            a, b = I.deref(args[0]), I.deref(args[1])
            if isinstance(a, SymEnum) and isinstance(b, SymEnum) and a.label and b.label:
                return space.real_eq(a.label, b.label)
            raise Unsupported(f"Value_::eq on non-template values {a!r} {b!r}"[:200])

        def run(ctx):
            ctx.assume(z3.And(space.wf(la), space.wf(lb)))
            I = Interp(space.P, ctx, natives={"Value_::eq": native})
            A = space.build(la, "L").fields["0"].inner
            B = space.build(lb, "R").fields["0"].inner
            return I.call_user_body(fn, [A, B], "Value_")
        res = explore(run, max_paths=8000)
        self.summary_paths += len(res)
        terms = []
        for r in res:
            if r.kind == "panic":
                self.panics.append((key, list(r.pc), r.value))
                continue
            if r.kind != "ok":
                raise UnwindExceeded(f"summary of Value_::eq{key}: {r.kind} {r.value}")
            val = r.value
            if isinstance(val, Opaque):
                raise Unsupported(f"Value_::eq{key} returned an opaque result ({val.label})")
            if isinstance(val, bool):
                if val:
                    terms.append(z3.And(*r.pc) if r.pc else z3.BoolVal(True))
            else:
                terms.append(z3.And(*(r.pc + [val])))
        s = z3.simplify(z3.Or(*terms)) if terms else z3.BoolVal(False)
        self.summaries[key] = s
        return s


class SymMap(Map):
    """Map with a symbolic number of live entries (prefix of `all_entries`)."""

    def __init__(self, all_entries, n):
        super().__init__(list(all_entries))
        self.all_entries = list(all_entries)
        self.n = n


def literal(m, S, l):
    v = S.vars(l)

    def ev(x):
        return m.eval(x, model_completion=True)
    tag = S.variants[ev(v["tag"]).as_long()]
    kids = S.kids(l)
    n = ev(v["n"]).as_long()
    if tag == "Int":
        x = ev(v["i"]).as_long()
        x = x - (1 << 64) if x >> 63 else x
        return str(x) if x >= 0 else (f"(0 - {-x})" if x != -(1 << 63) else "((0 - 9223372036854775807) - 1)")
    if tag == "Float":
        import struct
        bits = ev(z3.fpToIEEEBV(v["f"])).as_long()
        f = struct.unpack(">d", bits.to_bytes(8, "big"))[0]
        s = repr(f)
        if "e" in s or "inf" in s or "nan" in s:
            return None
        return s if not s.startswith("-") else f"({s})"
    if tag == "String":
        return '"' + STRS[ev(v["s"]).as_long()] + '"'
    if tag in ("List", "Tuple"):
        items = [literal(m, S, k) for k in kids[:n]]
        if any(x is None for x in items):
            return None
        if tag == "List":
            return "[" + ", ".join(items) + "]"
        return "(" + ", ".join(items) + ("," if len(items) == 1 else "") + ")"
    if tag == "Dict":
        keys = [STRS[ev(v["k0"]).as_long()], STRS[ev(v["k1"]).as_long()]]
        items = [literal(m, S, k) for k in kids[:n]]
        if any(x is None for x in items):
            return None
        return "Dict[" + ", ".join(f'"{k}" => {x}' for k, x in zip(keys[:n], items)) + "]"
    if tag == "EnumVariant":
        ty = ENUM_TYPES[ev(v["ety"]).as_long()]
        idx = ev(v["idx"]).as_long()
        if ty == "Bool":
            return "True" if idx == 0 else "False"
        if ty == "Unit":
            return "Unit"
        inner = literal(m, S, kids[0]) if (ty == "Result" or idx == 0) else None
        if ty == "Option":
            return "None" if idx == 1 else (None if inner is None else f"Some({inner})")
        return None if inner is None else (f"Ok({inner})" if idx == 0 else f"Err({inner})")
    if tag == "Struct":
        inner = literal(m, S, kids[0])
        return None if inner is None else f"{STRUCT_TYPES[ev(v['sty']).as_long()]}{{ f: {inner} }}"
    return None


PRELUDE = "struct P { f: Int }\nstruct Q { f: Int }\n"


def native_eq(la, lb):
    src = f"println(string_repr({la} == {lb}))\nprintln(string_repr({la} != {lb}))"
    code, out, err = native.run_c(src)
    lines = out.strip().splitlines()
    return lines, code, err


def main():
    C = Check("C13", "`==` is structural equality on values")
    P = Program(FILES)
    if P.errors:
        raise Unsupported("; ".join(P.errors))
    depth = 1 if C.tier == "quick" else 2
    C.bounds = {"value_depth": depth, "max_elements": MAXN, "strings": STRS, "enum_types": ENUM_TYPES, "floats": "finite doubles",
                "ints": "64-bit"}
    C.assumptions += [
        "the two operands are built independently (distinct Rc allocations): std's `impl<T: Eq> PartialEq for Rc<T>` "
        "pointer shortcut is modelled but never fires",
        "strings and dict keys are atoms over a small table (only their equality is used); rpds::Vector == is "
        "length-and-elementwise, rpds::HashTrieMap == is equality of the key->value maps (models)",
        "runtime_type of an enum/struct value is modelled as determined by its type name (type arguments dropped)",
        "functions, closures and namespaces have no literal syntax and are outside the claim",
    ]
    S = ValueSpace(P, depth)
    a, b, c = "a", "b", "c"

    NICE = [0.0, -0.0, 0.5, 1.0, 1.5, 2.0, -1.5, 1234.25]

    def nice(l):
        cs = []
        v = S.vars(l)
        cs.append(z3.Or(*[v["f"] == z3.FPVal(x, z3.Float64()) for x in NICE]))
        if S.level(l) < depth:
            for k in S.kids(l):
                cs.append(nice(k))
        return z3.And(*cs)

    def no_struct(l):
        cs = [S.vars(l)["tag"] != S.variants.index("Struct")]
        if S.level(l) < depth:
            for k in S.kids(l):
                cs.append(no_struct(k))
        return z3.And(*cs)

    def replay_eq(labels, expect_fn, what, formula=None):
        def replay(m):
            lits = {l: literal(m, S, l) for l in labels}
            if (any(v is None for v in lits.values()) or any("P{" in v or "Q{" in v for v in lits.values())) and formula is not None:
                # the model has no plain literal form (floats without a decimal rendering, struct wrappers whose field
                # type the test prelude cannot declare): ask again for a model from the printable part of the space
                for extra in ([nice(l) for l in labels] + [no_struct(l) for l in labels], [nice(l) for l in labels]):
                    s2 = z3.Solver()
                    s2.set("timeout", 20000)
                    s2.add(*formula)
                    s2.add(*extra)
                    if s2.check() == z3.sat:
                        m = s2.model()
                        lits = {l: literal(m, S, l) for l in labels}
                        break
            if any(v is None for v in lits.values()) or any("P{" in v or "Q{" in v for v in lits.values()):
                return {"reproduced": False, "detail": f"model has no plain literal form: {lits}"}
            ok, detail = expect_fn(m, lits)
            return {"reproduced": not ok, "artefact": lits, "detail": what + ": " + detail}
        return replay

    def agree(m, lits):
        want = z3.is_true(m.eval(S.ref_eq(a, b), model_completion=True))
        lines, code, err = native_eq(lits[a], lits[b])
        got = lines[0] if lines else f"exit {code}"
        neg = lines[1] if len(lines) > 1 else "?"
        ok = got == ("True" if want else "False") and neg == ("False" if want else "True")
        return ok, f"structurally-equal={want} `==` printed {got}, `!=` printed {neg}"

    wfab = [S.wf(a), S.wf(b)]
    C.prove("eq-is-structural", wfab, S.real_eq(a, b) == S.ref_eq(a, b), site="eq/not-structural",
            what="`a == b` differs from structural equality",
            replay=replay_eq([a, b], agree, "a == b", wfab + [S.real_eq(a, b) != S.ref_eq(a, b)]),
            model_desc=lambda m: {"a": literal(m, S, a), "b": literal(m, S, b)})
    # reflexive on an independently built copy: same symbolic content, different allocations
    C.prove("reflexive", [S.wf(a)], S.real_eq(a, a), site="eq/not-reflexive", what="v == v is False for a value built twice",
            replay=replay_eq([a], lambda m, lits: ((native_eq(lits[a], lits[a])[0] or ["?"])[0] == "True",
                                                   f"{lits[a]} == {lits[a]} printed {native_eq(lits[a], lits[a])[0]}"), "v == v",
                              [S.wf(a), z3.Not(S.real_eq(a, a))]),
            model_desc=lambda m: literal(m, S, a))
    C.prove("symmetric", wfab, S.real_eq(a, b) == S.real_eq(b, a), site="eq/not-symmetric", what="a == b differs from b == a",
            replay=replay_eq([a, b], lambda m, lits: ((native_eq(lits[a], lits[b])[0] or ["?"])[0] == (native_eq(lits[b], lits[a])[0] or ["?"])[0],
                                                      "a==b vs b==a differ"), "symmetry"))
    C.prove("transitive", wfab + [S.wf(c), S.real_eq(a, b), S.real_eq(b, c)], S.real_eq(a, c), site="eq/not-transitive",
            what="a == b and b == c but not a == c",
            replay=replay_eq([a, b, c], lambda m, lits: ((native_eq(lits[a], lits[c])[0] or ["?"])[0] == "True", "a==c printed False"),
                             "transitivity"))
    for key, pc, p in S.panics[:10]:
        C.prove(f"no-panic/{key}", pc, False, site=f"eq/panic/{p.kind}", what=f"Value_::eq panics: {p}")
    C.reach("some-equal-pair", wfab + [S.real_eq(a, b), S.vars(a)["tag"] == S.variants.index("List"), S.vars(a)["n"] > 0])
    C.reach("some-unequal-pair", wfab + [z3.Not(S.real_eq(a, b)), S.vars(a)["tag"] == S.vars(b)["tag"]])
    C.paths += S.summary_paths
    C.extra["summaries"] = len(S.summaries)
    C.functions["Value_::eq"] = P.fn_info("eq", "Value_")

    # translator validation: encoding vs real binary on solver-drawn literal pairs
    solver = z3.Solver()
    solver.add(*wfab)
    va, vb = S.vars(a), S.vars(b)
    n_val = 24 if C.tier == "quick" else 100
    j = 0
    while j < n_val and solver.check() == z3.sat:
        m = solver.model()
        la, lb = literal(m, S, a), literal(m, S, b)
        blk = z3.Or(va["tag"] != m.eval(va["tag"], model_completion=True), vb["tag"] != m.eval(vb["tag"], model_completion=True),
                    (S.real_eq(a, b) != m.eval(S.real_eq(a, b), model_completion=True)) if j % 2 else z3.BoolVal(False))
        solver.add(blk)
        j += 1
        if la is None or lb is None or "{ f:" in la or "{ f:" in lb:
            continue
        enc = z3.is_true(m.eval(S.real_eq(a, b), model_completion=True))
        lines, code, err = native_eq(la, lb)
        if not lines or lines[0] != ("True" if enc else "False"):
            C.validation_mismatch(f"{la} == {lb}: encoding {enc}, real binary {lines[:1]} (exit {code})")
        else:
            C.validated_against_impl()
        if j <= 4:
            C.sample({"a": la, "b": lb, "a == b": lines[:1]})
    C.models_used |= stdmodels.USED
    C.finish()


if __name__ == "__main__":
    run_check(main)
