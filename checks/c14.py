#!/usr/bin/env python3
"""C14 — subtyping is a preorder with the documented variance.

The real `is_subtype` (garden_type.rs) is executed on symbolic type templates
(symbolic variant tag, name, arity and children up to a depth bound) by merged
per-invocation summaries; z3 then decides the laws over ALL well-formed,
error-free types within the bound in single queries: reflexivity, transitivity,
Any top, NoValue bottom, covariance of tuples and user-defined types,
contravariant parameters / covariant result of function types (both
directions).
"""
import os
import sys

sys.path.insert(0, os.path.dirname(os.path.dirname(os.path.abspath(__file__))))
import z3  # noqa: E402

from rsx.core import *  # noqa
from rsx import stdmodels  # noqa
from rsx.interp import Program  # noqa
from vlib.check import Check, run_check  # noqa
from vlib import native  # noqa
from checks import tytemplates as T  # noqa


def main():
    C = Check("C14", "subtyping is a preorder with the documented variance")
    P = Program(T.TYPE_FILES)
    if P.errors:
        raise Unsupported("; ".join(P.errors))
    depth = 2 if C.tier == "quick" else 3
    C.bounds = {"type_depth": depth, "max_arity": T.MAX_ARITY, "names": T.NAMES, "type_parameters": T.TPARAMS,
                "well_formed": "arity of each user-defined name respected; no Error nodes"}
    C.assumptions += [
        "type names are atoms (only equality and the test == \"NoValue\" are used by is_subtype); TypeDefKind is fixed",
        "derive(PartialEq) on TypeName is structural equality",
        "ill-formed arities (where zip truncation breaks transitivity) and Error types are outside the property",
    ]
    S = T.TypeSpace(P, depth)
    V = S.variants
    idx = {n: V.index(n) for n in V}
    wf = lambda *ls: [S.wf(l) for l in ls]  # noqa: E731
    hook = {"s": None}

    def ask_subtype(a, b):
        if hook["s"] is None:
            hook["s"] = T.HookSession("subtype")
        return hook["s"].ask({"a": a, "b": b})

    def replay_law(labels, predicate, describe):
        """Replay a law counterexample on the real function through the hook."""
        def replay(m):
            tys = {l: T.type_to_json(m, S, l) for l in labels}
            ok, detail = predicate(tys)
            return {"reproduced": not ok, "artefact": {l: T.show(t) for l, t in tys.items()},
                    "detail": describe + ": " + detail}
        return replay

    a, b, c = "a", "b", "c"
    va, vb, vc = S.vars(a), S.vars(b), S.vars(c)

    # 1 reflexivity
    C.prove("reflexive", wf(a), S.subtype(a, a), site="law/reflexive", what="t <: t fails for some well-formed t",
            replay=replay_law([a], lambda t: (ask_subtype(t[a], t[a]) is True, f"is_subtype(t,t)={ask_subtype(t[a], t[a])}"),
                              "reflexivity"), model_desc=lambda m: T.show(T.type_to_json(m, S, a)))
    # 2 transitivity
    def tr_pred(t):
        ab, bc, ac = ask_subtype(t[a], t[b]), ask_subtype(t[b], t[c]), ask_subtype(t[a], t[c])
        return (not (ab and bc) or ac, f"a<:b={ab} b<:c={bc} a<:c={ac}")
    C.prove("transitive", wf(a, b, c) + [S.subtype(a, b), S.subtype(b, c)], S.subtype(a, c), site="law/transitive",
            what="a <: b and b <: c but not a <: c", replay=replay_law([a, b, c], tr_pred, "transitivity"),
            model_desc=lambda m: {l: T.show(T.type_to_json(m, S, l)) for l in (a, b, c)})
    # 3 Any is top
    C.prove("any-is-top", wf(a, b) + [vb["tag"] == idx["Any"]], S.subtype(a, b), site="law/top",
            what="t <: Any fails", replay=replay_law([a, b], lambda t: (ask_subtype(t[a], t[b]) is True, "t <: Any false"), "top"),
            model_desc=lambda m: T.show(T.type_to_json(m, S, a)))
    # 4 NoValue is bottom
    C.prove("novalue-is-bottom", wf(a, b) + [va["tag"] == idx["UserDefined"], va["name"] == T.NAMES.index("NoValue")],
            S.subtype(a, b), site="law/bottom", what="NoValue <: t fails",
            replay=replay_law([a, b], lambda t: (ask_subtype(t[a], t[b]) is True, "NoValue <: t false"), "bottom"),
            model_desc=lambda m: T.show(T.type_to_json(m, S, b)))
    # 5 covariance of tuples and user-defined types (both directions)
    kids_a, ret_a = S.children(a)
    kids_b, ret_b = S.children(b)

    def all_kids(n_var, f):
        return z3.And(*[z3.Implies(n_var > i, f(i)) for i in range(T.MAX_ARITY)])
    cov = all_kids(va["n"], lambda i: S.subtype(kids_a[i], kids_b[i]))

    def cov_pred(t):
        whole = ask_subtype(t[a], t[b])
        key = "Tuple" if "Tuple" in t[a] else "UD"
        xs = t[a][key] if key == "Tuple" else t[a]["UD"]["args"]
        ys = t[b][key] if key == "Tuple" else t[b]["UD"]["args"]
        parts = all(ask_subtype(x, y) for x, y in zip(xs, ys))
        return (whole == parts, f"whole={whole} componentwise={parts}")
    same_tuple = [va["tag"] == idx["Tuple"], vb["tag"] == idx["Tuple"], va["n"] == vb["n"]]
    C.prove("tuple-covariant", wf(a, b) + same_tuple, S.subtype(a, b) == cov, site="law/tuple-covariance",
            what="(a1,..) <: (b1,..) differs from componentwise a_i <: b_i", replay=replay_law([a, b], cov_pred, "tuple covariance"),
            model_desc=lambda m: {l: T.show(T.type_to_json(m, S, l)) for l in (a, b)})
    same_ud = [va["tag"] == idx["UserDefined"], vb["tag"] == idx["UserDefined"], va["name"] == vb["name"],
               va["name"] != T.NAMES.index("NoValue")]
    C.prove("user-defined-covariant", wf(a, b) + same_ud, S.subtype(a, b) == cov, site="law/user-defined-covariance",
            what="C<a..> <: C<b..> differs from componentwise a_i <: b_i", replay=replay_law([a, b], cov_pred, "user-defined covariance"),
            model_desc=lambda m: {l: T.show(T.type_to_json(m, S, l)) for l in (a, b)})
    # 6 function types: contravariant parameters, covariant result
    if depth >= 1:
        contra = all_kids(va["n"], lambda i: S.subtype(kids_b[i], kids_a[i]))
        fun_rel = z3.And(contra, S.subtype(ret_a, ret_b))

        def fun_pred(t):
            whole = ask_subtype(t[a], t[b])
            pa, pb = t[a]["Fun"]["params"], t[b]["Fun"]["params"]
            parts = all(ask_subtype(y, x) for x, y in zip(pa, pb)) and ask_subtype(t[a]["Fun"]["ret"], t[b]["Fun"]["ret"])
            return (whole == parts, f"whole={whole} params-contra-and-ret-co={parts}")
        same_fun = [va["tag"] == idx["Fun"], vb["tag"] == idx["Fun"], va["n"] == vb["n"]]
        C.prove("function-variance", wf(a, b) + same_fun, S.subtype(a, b) == fun_rel, site="law/function-variance",
                what="Fun<(p..),r> <: Fun<(q..),s> differs from (q_i <: p_i for all i) and r <: s",
                replay=replay_law([a, b], fun_pred, "function variance"),
                model_desc=lambda m: {l: T.show(T.type_to_json(m, S, l)) for l in (a, b)})
    # no panic reachable inside is_subtype on well-formed templates
    for key, pc, p in S.panics[:20]:
        C.prove(f"no-panic/{key}", pc, False, site=f"is_subtype/panic/{p.kind}", what=f"is_subtype panics: {p}")
    # vacuity: a non-trivial pair exists on both sides of the relation
    C.reach("some-pair-related", wf(a, b) + [S.subtype(a, b), va["tag"] == idx["Fun"]])
    C.reach("some-pair-unrelated", wf(a, b) + [z3.Not(S.subtype(a, b)), va["tag"] == idx["Tuple"], vb["tag"] == idx["Tuple"]])
    C.paths += S.summary_paths
    C.extra["summaries"] = len(S.summaries)
    C.extra["summary_paths"] = S.summary_paths
    fi = P.fn_info("is_subtype")
    C.functions["is_subtype"] = fi
    for nm in ("is_no_value", "is_error"):
        f = P.fn_info(nm, "Type")
        if f:
            C.functions["Type::" + nm] = f

    # translator validation: the summaries against the real function on concrete types drawn from solver models
    import itertools
    solver = z3.Solver()
    for cnd in wf(a, b):
        solver.add(cnd)
    n_val = 40 if C.tier == "quick" else 200
    seen = 0
    C.rng.seed(C.seed)
    while seen < n_val and solver.check() == z3.sat:
        m = solver.model()
        ta, tb = T.type_to_json(m, S, a), T.type_to_json(m, S, b)
        want = z3.is_true(m.eval(S.subtype(a, b), model_completion=True))
        got = ask_subtype(ta, tb)
        if got != want:
            C.validation_mismatch(f"is_subtype({T.show(ta)}, {T.show(tb)}): encoding {want}, real function {got}")
        else:
            C.validated_against_impl()
        if seen < 4:
            C.sample({"a": T.show(ta), "b": T.show(tb), "is_subtype": got})
        seen += 1
        # block this model on the top-level shape and vary: force a different (tag_a, tag_b, relation) mix
        va_, vb_ = S.vars(a), S.vars(b)
        block = z3.Or(va_["tag"] != m.eval(va_["tag"], model_completion=True), vb_["tag"] != m.eval(vb_["tag"], model_completion=True),
                      va_["name"] != m.eval(va_["name"], model_completion=True), vb_["name"] != m.eval(vb_["name"], model_completion=True),
                      va_["n"] != m.eval(va_["n"], model_completion=True), S.subtype(a, b) != want if seen % 2 else z3.BoolVal(False))
        solver.add(block)
    if hook["s"]:
        hook["s"].close()
    C.models_used |= stdmodels.USED
    C.finish()


if __name__ == "__main__":
    run_check(main)
