#!/usr/bin/env python3
"""C15 — inferred types of lists and branches cover every element.

The real `unify` / `unify_all` (type_checker.rs) are executed symbolically on
type templates; for every feasible path that returns a combined type u, the
real `is_subtype` is executed on (a, u) and (b, u) and z3 decides that both
hold; combining equal types returns that type.
"""
import os
import sys

sys.path.insert(0, os.path.dirname(os.path.dirname(os.path.abspath(__file__))))
import z3  # noqa: E402

from rsx.core import *  # noqa
from rsx import stdmodels  # noqa
from rsx.interp import Program, Interp, b_and  # noqa
from vlib.check import Check, run_check  # noqa
from checks import tytemplates as T  # noqa


def concrete_json(I, m, S, t):
    """Hook JSON of a (possibly derived) Type value under model m."""
    t = I.deref(t) if I else t
    if isinstance(t, SymEnum):
        return T.type_to_json(m, S, t.label)
    if isinstance(t, Enum) and t.ty == "Type":
        if t.variant == "Any":
            return "Any"
        if t.variant == "UserDefined":
            name = t.fields["name"].fields["text"]
            nm = T.NAMES[m.eval(name.atom, model_completion=True).as_long()] if isinstance(name, AtomStr) else name.s
            args = t.fields["args"]
            items = args.items if not (isinstance(args, SymVec) and not args.resolved) else \
                args.all_items[:m.eval(args.n, model_completion=True).as_long()]
            return {"UD": {"name": nm, "args": [concrete_json(I, m, S, x) for x in items]}}
        if t.variant == "Tuple":
            return {"Tuple": [concrete_json(I, m, S, x) for x in t.fields[0].items]}
    return "Error"


def main():
    C = Check("C15", "inferred types of lists and branches cover every element")
    P = Program(T.TYPE_FILES)
    if P.errors:
        raise Unsupported("; ".join(P.errors))
    # depth 2 does not finish: two depth-2 templates ran past 45 minutes even with one of them at depth 1 (several hundred
    # thousand unify paths, each followed by two is_subtype executions).  Both tiers use depth-1 templates; thorough adds
    # unify_all over three elements and more translator-validation samples.
    depth = 1
    C.bounds = {"type_depth": depth if depth == 1 else "first argument 2, second argument 1; unify(t, t) at 2", "max_arity": T.MAX_ARITY, "names": T.NAMES, "unify_all_elements": "2 at depth 1" if C.tier == "quick" else "3 at depth 1"}
    C.assumptions += ["type names are atoms; derive(PartialEq) on Type/TypeName is structural equality (merged over templates)",
                      "well-formed types without Error nodes (property statement)"]
    S = T.TypeSpace(P, depth)
    # thorough: the first argument is a depth-2 template, the second a depth-1 template (two depth-2 templates are
    # several hundred thousand paths and do not finish in an hour); unify(t, t) is checked on depth-2 templates
    SB = S if depth == 1 else T.TypeSpace(P, 1)
    hooks = {}

    def hook(op):
        if op not in hooks:
            hooks[op] = T.HookSession(op)
        return hooks[op]

    def run_pair(ctx, same=False):
        ctx.assume(z3.And(S.wf("a"), SB.wf("b")))
        I = Interp(P, ctx)
        A = S.build("a")
        B = S.build("a") if same else SB.build("b")
        r = I.call_user(P.fns["unify"], [A, B])
        out = {"I": I, "A": A, "B": B, "r": r}
        if isinstance(r, Enum) and r.variant == "Some":
            u = r.fields[0]
            out["u"] = u
            out["a_sub_u"] = I.call_user(P.fns["is_subtype"], [A, u])
            out["b_sub_u"] = I.call_user(P.fns["is_subtype"], [B, u])
            if same:
                out["u_eq_a"] = I.eq_values(u, A)
        return out

    def replay_pair(rec):
        def replay(m):
            a = T.type_to_json(m, S, "a")
            b = T.type_to_json(m, SB, "b") if rec["B"].label == "b" else a
            u = hook("unify").ask({"a": a, "b": b})
            if u is None:
                return {"reproduced": False, "detail": f"real unify({T.show(a)}, {T.show(b)}) = None"}
            ok = hook("subtype").ask({"a": a, "b": u}) and hook("subtype").ask({"a": b, "b": u})
            same_ok = (u == a) if rec["B"].label == "a" else True
            return {"reproduced": not (ok and same_ok), "artefact": {"a": T.show(a), "b": T.show(b), "unify": T.show(u)},
                    "detail": f"unify({T.show(a)}, {T.show(b)}) = {T.show(u)}; both-subtypes={ok} equal-input-returned={same_ok}"}
        return replay

    for same in (False, True):
        cnt = {"some": 0, "paths": 0}

        def handle(i, r, same=same, cnt=cnt):
            # streamed: at depth 2 the pair space has several hundred thousand paths; nothing per path is retained
            cnt["paths"] += 1
            tag = "same" if same else "pair"
            if r.kind == "unwind":
                C.inconclusive.append(f"unwinding bound hit: {r.value}")
                return
            if r.kind == "panic":
                C.prove(f"{tag}/path{i}:no-panic", r.pc, False, site="unify/panic", what=f"unify panics: {r.value}")
                return
            if r.kind != "ok":
                return
            v = r.value
            C.note_interp(v["I"])
            if "u" not in v:
                if same:
                    C.prove(f"same/path{i}:unify-t-t-is-some", r.pc, False, site="unify/equal-types-not-unified",
                            what="unify(t, t) returns None", replay=replay_pair(v))
                return
            cnt["some"] += 1
            claim = b_and(v["a_sub_u"], v["b_sub_u"])
            C.prove(f"{tag}/path{i}:inputs-are-subtypes-of-result", r.pc, claim, site="unify/result-not-a-supertype",
                    what="unify(a, b) = u but a <: u or b <: u fails", replay=replay_pair(v),
                    model_desc=lambda m: {"a": T.show(T.type_to_json(m, S, "a")), "b": T.show(T.type_to_json(m, SB, "b"))})
            if same:
                C.prove(f"same/path{i}:equal-types-return-that-type", r.pc, v["u_eq_a"], site="unify/equal-types-changed",
                        what="unify(t, t) returns a type different from t", replay=replay_pair(v),
                        model_desc=lambda m: T.show(T.type_to_json(m, S, "a")))
            if cnt["some"] <= 3 and not same:
                C.sample({"path": i, "obligation": "pc => a <: unify(a,b) and b <: unify(a,b)", "result_shape": repr(v["u"])[:120]})
        explore(lambda ctx: run_pair(ctx, same), max_paths=2000000, on_result=handle)
        C.paths += cnt["paths"]
        C.reach(f"{'same' if same else 'pair'}/some-path-exists", [z3.BoolVal(cnt["some"] > 0)])

    # unify_all over k elements (thorough: 3 elements on depth-1 templates; 3 depth-2 templates are out of reach)
    k = 2 if C.tier == "quick" else 3
    labels = ["a", "b", "c"][:k]
    SA = S if depth == 1 else T.TypeSpace(P, 1)
    if "unify_all" in P.fns:
        def run_all(ctx):
            ctx.assume(z3.And(*[SA.wf(l) for l in labels]))
            I = Interp(P, ctx)
            ts = [SA.build(l) for l in labels]
            r = I.call_user(P.fns["unify_all"], [Vec([(t, Opaque(f"pos{j}")) for j, t in enumerate(ts)], "slice")])
            out = {"I": I, "r": r, "ts": ts}
            if isinstance(r, Enum) and r.variant == "Ok":
                u = r.fields[0]
                out["subs"] = [I.call_user(P.fns["is_subtype"], [t, u]) for t in ts]
            return out
        cnt_all = {"ok": 0, "paths": 0}

        def replay_all(m):
            tys = [T.type_to_json(m, SA, l) for l in labels]
            u = {"UD": {"name": "NoValue", "args": []}}
            for t in tys:
                u = hook("unify").ask({"a": u, "b": t})
                if u is None:
                    return {"reproduced": False, "detail": "real unify_all fails"}
            ok = all(hook("subtype").ask({"a": t, "b": u}) for t in tys)
            return {"reproduced": not ok, "artefact": {"types": [T.show(t) for t in tys], "unified": T.show(u)},
                    "detail": f"all-subtypes={ok}"}

        def handle_all(i, r):
            cnt_all["paths"] += 1
            if r.kind == "unwind":
                C.inconclusive.append(f"unwinding bound hit: {r.value}")
            if r.kind != "ok" or "subs" not in r.value:
                return
            cnt_all["ok"] += 1
            C.prove(f"all/path{i}:every-element-is-a-subtype", r.pc, b_and(*r.value["subs"]), site="unify_all/result-not-a-supertype",
                    what="unify_all([t1..tk]) = u but some t_i <: u fails", replay=replay_all)
        explore(run_all, max_paths=2000000, on_result=handle_all)
        C.paths += cnt_all["paths"]
        C.reach("unify_all/ok-path-exists", [z3.BoolVal(cnt_all["ok"] > 0)])

    # translator validation against the hook on solver-drawn concrete pairs
    solver = z3.Solver()
    solver.add(S.wf("a"), S.wf("b"))
    va, vb = S.vars("a"), S.vars("b")
    n_val = 30 if C.tier == "quick" else 120
    for j in range(n_val):
        if solver.check() != z3.sat:
            break
        m = solver.model()
        a, b = T.type_to_json(m, S, "a"), T.type_to_json(m, S, "b")

        def runc(ctx):
            for cnd in [S.wf("a"), S.wf("b")]:
                ctx.assume(cnd)
            for l in ("a", "b"):
                pin(ctx, m, l)
            I = Interp(P, ctx)
            return I, I.call_user(P.fns["unify"], [S.build("a"), S.build("b")])

        def pin(ctx, m, label):
            v = S.vars(label)
            for key in ("tag", "name", "n", "tp"):
                ctx.assume(v[key] == m.eval(v[key], model_completion=True))
            if S.level(label) < depth:
                kids, ret = S.children(label)
                for kk in kids + [ret]:
                    pin(ctx, m, kk)
        rs = [r for r in explore(runc, max_paths=200) if r.kind == "ok"]
        real = hook("unify").ask({"a": a, "b": b})
        if len(rs) != 1:
            C.validation_mismatch(f"pinned unify({T.show(a)}, {T.show(b)}) gave {len(rs)} paths")
        else:
            I, r = rs[0].value
            enc = concrete_json(I, m, S, r.fields[0]) if (isinstance(r, Enum) and r.variant == "Some") else None
            if enc != real:
                C.validation_mismatch(f"unify({T.show(a)}, {T.show(b)}): encoding {enc}, real {real}")
            else:
                C.validated_against_impl()
        solver.add(z3.Or(va["tag"] != m.eval(va["tag"], model_completion=True), vb["tag"] != m.eval(vb["tag"], model_completion=True),
                         va["name"] != m.eval(va["name"], model_completion=True), vb["name"] != m.eval(vb["name"], model_completion=True)))
    for h in hooks.values():
        h.close()
    C.models_used |= stdmodels.USED
    # part B: every element / branch type reaches the join (the checker's join sites)
    from checks import c15b
    c15b.run_join_kernel(C, P)
    C.finish()


if __name__ == "__main__":
    run_check(main)
