"""C15 part B — every element / branch type reaches the join (data-flow kernel of the checker's join sites).

Part A decides that `unify` / `unify_all` return a supertype of every input.  That covers "the inferred type covers
every element" only if every element's type is *passed* to the join and the join's result is what the site returns.
Here each join site of the real type checker — `check_match` (inferring and checking), `infer_if`, `infer_try`, the
list and dict literal arms of `infer_expr_`, and the list arm of `check_expr_` — is executed symbolically with the
per-element inference (`infer_expr`, `check_expr`, `infer_block`, `check_block`) replaced by stubs that return one
distinct type token per element, and `unify` / `unify_all` replaced by a recording stub that returns a token J or
fails.  Decided on every path: the join was called once with exactly the tokens of all elements (none dropped, none
duplicated, whatever the patterns / keys look like), and when the join succeeds in inferring mode the site returns a
type built from J.
"""
import z3

from rsx.core import *  # noqa
from rsx.interp import Interp
from vlib import native

NOPOS = lambda l: Opaque(f"pos.{l}")  # noqa: E731


def sym(name, label):
    return Struct("Symbol", {"name": Struct("SymbolName", {"text": Str(name)}), "position": NOPOS(label),
                             "id": Opaque(f"id.{label}")}, partial=True)


def expr_tok(label):
    return Struct("Expression", {"expr_": Enum("Expression_", "Invalid", []), "position": NOPOS(label),
                                 "value_is_used": True, "id": Opaque(f"id.{label}"), "__tok": label}, partial=True)


def block(ctx, label):
    n = ctx.choose([True, True])
    return Struct("Block", {"exprs": Vec([Rc(expr_tok(f"{label}.e{i}")) for i in range(n)]),
                            "open_brace": NOPOS(label + ".ob"), "close_brace": NOPOS(label + ".cb")}, partial=True)


class Site:
    """Recording stubs shared by all sites."""

    def __init__(self, ctx, P):
        self.ctx, self.P = ctx, P
        self.tokens = []       # element type tokens in the order the stubs handed them out
        self.joins = []        # recorded join calls: list of lists of tokens
        self.join_result = None
        self.n = 0
        nat = {
            "TypeCheckVisitor::infer_block": self.elem, "TypeCheckVisitor::check_block": self.elem_checked,
            "TypeCheckVisitor::infer_expr": self.infer_expr, "TypeCheckVisitor::check_expr": self.check_expr,
            "TypeCheckVisitor::set_dest_binding": self.unit, "TypeCheckVisitor::set_binding": self.unit,
            "TypeCheckVisitor::get_var": self.get_var, "TypeCheckVisitor::save_hint_ty_id": self.unit,
            "check_match_exhaustive": self.unit, "enum_payload_type": lambda I, a, n: Opaque("payload_ty"),
            "unify_all": self.unify_all, "unify": self.unify, "is_subtype": self.is_subtype,
            "FakeBindings::enter_block": self.unit, "FakeBindings::exit_block": self.unit,
            "FakeMap::insert": lambda I, a, n: NONE, "format_type_mismatch": lambda I, a, n: Opaque("msg"),
        }
        self.I = Interp(P, ctx, natives=nat, opaque_fns=["Type::type_name", "Type::as_message_parts", "Value::display",
                                                         "Value_::display", "Type::from_hint"])
        self.I.loop_bound = 8
        self.visitor = Struct("TypeCheckVisitor", {"env": Opaque("env"), "diagnostics": Vec([]),
                                                   "bindings": Struct("FakeBindings", {}),
                                                   "id_to_ty": Struct("FakeMap", {})}, partial=True)
        self.scrutinee_tokens = set()

    # -- stubs
    def unit(self, I, a, n):
        return UNIT

    def fresh_ty(self, kind):
        self.n += 1
        t = Opaque(f"ty.{kind}{self.n}")
        return t

    def elem(self, I, a, n):
        t = self.fresh_ty("elem")
        self.tokens.append(t)
        return t

    def elem_checked(self, I, a, n):
        # check_block(expected, block, ..): args[0] is self
        t = self.fresh_ty("elem")
        self.tokens.append(t)
        return t

    def infer_expr(self, I, a, n):
        ex = I.deref(a[1])
        inner = ex.inner if isinstance(ex, Rc) else ex
        lab = inner.fields.get("__tok") if isinstance(inner, Struct) else None
        t = self.fresh_ty("elem")
        if lab is not None and lab.startswith("aux"):
            return Opaque(f"ty.aux.{lab}")      # scrutinee / condition / key: not an element
        self.tokens.append(t)
        return t

    def check_expr(self, I, a, n):
        ex = I.deref(a[2])
        inner = ex.inner if isinstance(ex, Rc) else ex
        lab = inner.fields.get("__tok") if isinstance(inner, Struct) else None
        if lab is not None and lab.startswith("aux"):
            return Opaque(f"ty.aux.{lab}")
        t = self.fresh_ty("elem")
        self.tokens.append(t)
        return t

    def get_var(self, I, a, n):
        k = self.ctx.choose([True, True, True, True])
        if k == 0:
            return NONE
        if k == 1:
            v = Enum("Value_", "EnumVariant", {"type_name": Opaque("tn_variant"), "runtime_type": Opaque("rt"),
                                                "variant_idx": Opaque("vi"), "payload": Opaque("pl")})
        elif k == 2:
            v = Enum("Value_", "EnumConstructor", {"type_name": Opaque("tn_ctor"), "variant_idx": Opaque("vi"),
                                                    "runtime_type": Opaque("rt")})
        else:
            v = Enum("Value_", "Int", [Int(1, 64, True)])
        return some(v)      # `value.as_ref()` (Value -> Value_, defined in values.rs) is the identity on this stand-in

    def record(self, items):
        self.joins.append(list(items))
        k = self.ctx.choose([True, True])
        return k

    def unify_all(self, I, a, n):
        vec = I.deref(a[0])
        items = []
        for it in vec.items:
            it = I.deref(it)
            items.append(I.deref(it[0]) if isinstance(it, tuple) else it)
        if self.record(items) == 0:
            self.join_result = Opaque("ty.JOIN")
            return ok(self.join_result)
        return err((Opaque("ty.l"), Opaque("ty.r"), Opaque("pos.err")))

    def unify(self, I, a, n):
        if self.record([I.deref(a[0]), I.deref(a[1])]) == 0:
            self.join_result = Opaque("ty.JOIN")
            return some(self.join_result)
        return NONE

    def is_subtype(self, I, a, n):
        return self.ctx.choose([True, True]) == 0


def contains(v, target, depth=0):
    """Does the returned type value contain the join token (by identity)?"""
    if v is target:
        return True
    if depth > 6:
        return False
    if isinstance(v, Rc):
        return contains(v.inner, target, depth + 1)
    if isinstance(v, (Struct, Enum)):
        fs = v.fields.values() if isinstance(v.fields, dict) else v.fields
        return any(contains(x, target, depth + 1) for x in fs)
    if isinstance(v, Vec):
        return any(contains(x, target, depth + 1) for x in v.items)
    if isinstance(v, tuple):
        return any(contains(x, target, depth + 1) for x in v)
    return False


def any_ty():
    return Enum("Type", "Any", [])


def some_expected_ty():
    return Enum("Type", "UserDefined", {"kind": Opaque("kind"), "name": Opaque("exp_name"), "args": Vec([])})


SITES = ["match/infer", "match/check", "if", "try", "list/infer", "dict/infer", "list/check"]


def run_site(ctx, P, site, max_elems):
    S = Site(ctx, P)
    I, V = S.I, S.visitor
    tb, ert = Opaque("type_bindings"), Opaque("expected_return_ty")
    n_expected = None
    inferring = True
    if site.startswith("match"):
        n = 1 + ctx.choose([True] * min(max_elems, 2))      # three arms with every pattern shape exceed 60 k paths
        cases = []
        for i in range(n):
            under = ctx.choose([True, True]) == 0
            payload = NONE if ctx.choose([True, True]) == 0 else some(Opaque(f"dest{i}"))
            pat = Struct("Pattern", {"variant_sym": sym("_" if under else "Foo", f"pat{i}"), "payload": payload}, partial=True)
            cases.append((pat, block(ctx, f"case{i}")))
        inferring = site == "match/infer"
        exp = any_ty() if inferring else some_expected_ty()
        r = I.call_user(P.methods[("TypeCheckVisitor", "check_match")],
                        [V, exp, tb, ert, Opaque("expr_id"), NOPOS("match"), expr_tok("aux.scrutinee"), Vec(cases, "slice")],
                        "TypeCheckVisitor")
        n_expected = n
    elif site == "if":
        r = I.call_user(P.methods[("TypeCheckVisitor", "infer_if")],
                        [V, expr_tok("aux.cond"), block(ctx, "then"), some(block(ctx, "else")), tb, ert], "TypeCheckVisitor")
        n_expected = 2
    elif site == "try":
        r = I.call_user(P.methods[("TypeCheckVisitor", "infer_try")],
                        [V, block(ctx, "try"), sym("e", "catch"), block(ctx, "catch"), tb, ert], "TypeCheckVisitor")
        n_expected = 2
    elif site in ("list/infer", "list/check"):
        n = ctx.choose([True] * (max_elems + 1))
        items = Vec([Struct("ExpressionWithComma", {"expr": Rc(expr_tok(f"item{i}")), "comma": NONE}, partial=True) for i in range(n)])
        e_ = Enum("Expression_", "ListLiteral", [items])
        if site == "list/infer":
            r = I.call_user(P.methods[("TypeCheckVisitor", "infer_expr_")], [V, e_, NOPOS("list"), Opaque("expr_id"), tb, ert],
                            "TypeCheckVisitor")
        else:
            inferring = False
            exp = Enum("Type", "UserDefined", {"kind": Enum("TypeDefKind", "Struct", []),
                                               "name": Struct("TypeName", {"text": Str("List")}), "args": Vec([Opaque("ty.expected_elem")])})
            r = I.call_user(P.methods[("TypeCheckVisitor", "check_expr_")], [V, exp, e_, NOPOS("list"), Opaque("expr_id"), tb, ert],
                            "TypeCheckVisitor")
        n_expected = n
    elif site == "dict/infer":
        n = ctx.choose([True] * (max_elems + 1))
        items = Vec([Struct("DictLiteralItem", {"key": Rc(expr_tok(f"aux.key{i}")), "value": Rc(expr_tok(f"val{i}"))}, partial=True)
                     for i in range(n)])
        e_ = Enum("Expression_", "DictLiteral", [items])
        r = I.call_user(P.methods[("TypeCheckVisitor", "infer_expr_")], [V, e_, NOPOS("dict"), Opaque("expr_id"), tb, ert],
                        "TypeCheckVisitor")
        n_expected = n
    else:
        raise Unsupported(site)
    all_joined = len(S.joins) == 1 and len(S.joins[0]) == len(S.tokens) and all(x is y for x, y in zip(S.joins[0], S.tokens))
    counted = len(S.tokens) == n_expected
    returns_join = True
    if inferring and S.join_result is not None:
        returns_join = contains(r, S.join_result)
    return {"I": I, "n": n_expected, "tokens": len(S.tokens), "joins": [len(j) for j in S.joins], "all_joined": all_joined,
            "counted": counted, "returns_join": returns_join, "join_ok": S.join_result is not None, "site": site}


NATIVE_PROGRAMS = {
    # (program for `garden check`, must produce a diagnostic)
    "match": ('fun f(o: Option<Int>): Int {\n  let x = match o {\n    Some(v) => v + 1\n    _ => "nothing"\n  }\n  x\n}\n',
              'fun f(o: Option<Int>): Int {\n  let x = match o {\n    Some(v) => "s"\n    None => 2\n  }\n  x\n}\n'),
    "if": ('fun f(b: Bool): Int {\n  let x = if b { 1 } else { "s" }\n  x\n}\n',),
    "try": ('fun f(): Int {\n  let x = try { 1 } catch(e) { "s" }\n  x\n}\n',),
    "list": ('fun f(): List<Int> {\n  let x = [1, "s"]\n  x\n}\n', 'fun f(): List<Int> {\n  let x = ["s", 1]\n  x\n}\n',
             'fun f(): List<Int> {\n  let x = [1, 2, "s"]\n  x\n}\n'),
    "dict": ('fun f(): Dict<Int> {\n  let x = Dict["a" => 1, "b" => "s"]\n  x\n}\n',
             'fun f(): Dict<Int> {\n  let x = Dict["a" => "s", "b" => 1]\n  x\n}\n'),
}


def native_replay(site):
    """Programs whose branches / elements disagree with the declared type in each position: the checker must report
    every one of them (if an element's type were dropped, one of these would check cleanly)."""
    fam = site.split("/")[0]
    clean = []
    for prog in NATIVE_PROGRAMS.get(fam, ()):
        code, out, err = native.run_file(prog, subcmd=("check",))
        txt = out + err
        # `garden check` exits 1 for warnings too (unused function, unnecessary let): only an Error diagnostic counts
        if code != 101 and not any(line.startswith("Error") for line in txt.splitlines()):
            clean.append(prog)
    return {"reproduced": bool(clean), "artefact": clean[:1] or list(NATIVE_PROGRAMS.get(fam, ()))[:1],
            "detail": f"{len(clean)} of {len(NATIVE_PROGRAMS.get(fam, ()))} ill-typed programs pass `garden check` without a diagnostic"}


def run_join_kernel(C, P):
    max_elems = 2 if C.tier == "quick" else 3
    C.bounds["join_sites"] = {"sites": SITES, "elements_or_arms": f"0..{max_elems} (match 1..2 arms)",
                              "patterns": "`_` or a name, with or without payload; the name resolves to nothing / an enum variant / "
                                          "an enum constructor / another value", "block_exprs": "0..1"}
    C.assumptions += [
        "join kernel: per-element inference is a stub returning one distinct type token per call; scrutinee, condition and key "
        "expressions are not elements; unify / unify_all are recording stubs that succeed with a token J or fail; is_subtype "
        "answers either way; diagnostics are collected but not inspected",
    ]
    n_ok = 0
    for site in SITES:
        try:
            res = explore(lambda ctx, site=site: run_site(ctx, P, site, max_elems), max_paths=60000)
        except (Unsupported, UnwindExceeded) as ex:
            C.inconclusive.append(f"join site {site} not encodable: {str(ex)[:200]}")
            continue
        C.note_paths(res)
        n_site = 0
        for i, r in enumerate(res):
            if r.kind == "panic":
                C.prove(f"join/{site}/path{i}:no-panic", r.pc, False, site=f"join/{site}/panic", what=f"the checker panics at {site}: {r.value}",
                        replay=lambda m, site=site: native_replay(site))
                continue
            if r.kind != "ok":
                continue
            v = r.value
            C.note_interp(v["I"])
            n_site += 1
            C.prove(f"join/{site}/path{i}:every-element-type-reaches-the-join", r.pc, v["all_joined"] and v["counted"],
                    site=f"join/{site}/element-dropped",
                    what=f"at {site} with {v['n']} elements the stubs handed out {v['tokens']} element types but the join received {v['joins']}",
                    replay=lambda m, site=site: native_replay(site), model_desc=lambda m, v=v: {"elements": v["n"], "join_calls": v["joins"]})
            C.prove(f"join/{site}/path{i}:site-returns-the-join", r.pc, v["returns_join"], site=f"join/{site}/result-not-the-join",
                    what=f"at {site} the join succeeded but the returned type is not built from its result",
                    replay=lambda m, site=site: native_replay(site))
            if i == 0:
                C.sample({"join_site": site, "elements": v["n"], "join_calls": v["joins"], "join_succeeded": v["join_ok"]})
        n_ok += n_site
        C.reach(f"join/{site}/paths-exist", [z3.BoolVal(n_site > 0)])
    C.extra["join_kernel_paths"] = n_ok
    # translator validation: the replay programs are ill-typed and the unchanged checker reports each of them
    for fam in NATIVE_PROGRAMS:
        rep = native_replay(fam)
        if rep["reproduced"]:
            C.validation_mismatch(f"ill-typed {fam} program passes `garden check`: {rep['artefact']}")
        else:
            C.validated_against_impl()
