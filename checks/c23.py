#!/usr/bin/env python3
"""C23 — reported source positions are consistent (token positions and Position::merge).

(1) The real lexer is executed on a symbolic source (see C01); for every token and comment position on every path
z3 decides: start <= end <= len, both on character boundaries, line_number = number of LF before start, column =
bytes since the last LF, end_line_number = number of LF before end, end_column consistent with end.
(2) The real `Position::merge` is executed on two fully symbolic positions that are consistent with respect to
uninterpreted monotone line/column functions; z3 decides the result is consistent.
"""
import os
import sys

sys.path.insert(0, os.path.dirname(os.path.dirname(os.path.abspath(__file__))))
import z3  # noqa: E402

from rsx.core import *  # noqa
from rsx import stdmodels  # noqa
from rsx.interp import Program, Interp  # noqa
from vlib.check import Check, run_check  # noqa
from vlib import native  # noqa
from checks import lexmodels as L  # noqa
from checks.tytemplates import HookSession  # noqa

ALPHABET = [ord('"'), 10, ord('a'), ord(' '), ord('/'), ord('\\'), 0xE9, ord('1')]


MERGE_PROGRAMS = [
    # merges whose second position ends before the first one (the parser's end-of-file placeholder, nested
    # sub-expressions) and ordinary left-to-right merges, on the first and on later lines, with multi-byte text before
    "foo(1 +", "let xs = [10, 20 +", "foo(1 +\n", "\nfoo(1 +", "let x =", "x = ", "x += ", "f(a.b(", "[1, (2", "Dict[\"k\" => 1 +",
    "foo(\"é\" +", "  foo(1 -", "foo(1 + 2", "foo(1 +\n  2 +", "let y = (1 +", "if x {", "fun f() { 1 +", "f(1, 2 *",
    "let s = \"a\nb\" +", "foo(bar(1 +",
]
_MERGE_REPLAY = {}


def native_merge_replay():
    """Incomplete programs through `garden check --json`: every reported range must be ordered (end not before start),
    lie inside the file and have columns within their lines."""
    if "r" in _MERGE_REPLAY:
        return _MERGE_REPLAY["r"]
    import json as _json
    bad = []
    n = 0
    for src in MERGE_PROGRAMS:
        code, out, err = native.run_file(src, subcmd=("check", "--json"))
        if code == 101:
            continue        # a front-end crash is C01's subject
        lines = src.split("\n")
        for raw in out.splitlines():
            raw = raw.strip()
            if not raw.startswith("{"):
                continue
            try:
                d = _json.loads(raw)
                ln, el, c, ec = d["line_number"], d["end_line_number"], d["column"], d["end_column"]
            except (ValueError, KeyError):
                continue
            n += 1
            why = None
            if el < ln or (el == ln and ec < c):
                why = f"end ({el}:{ec}) before start ({ln}:{c})"
            elif not (1 <= ln <= len(lines)) or not (1 <= el <= len(lines)):
                why = "line out of range"
            elif c > len(lines[ln - 1].encode()) or ec > len(lines[el - 1].encode()):
                why = "column past the end of its line"
            if why:
                bad.append({"source": src, "diagnostic": raw[:200], "why": why})
    _MERGE_REPLAY["r"] = {"reproduced": bool(bad), "artefact": bad[:2], "ranges_examined": n,
                          "detail": f"{len(bad)} of {n} ranges reported for {len(MERGE_PROGRAMS)} incomplete programs are inconsistent"}
    return _MERGE_REPLAY["r"]


def main():
    C = Check("C23", "reported source positions are consistent (token positions, Position::merge)")
    P = Program(L.LEX_FILES)
    if P.errors:
        raise Unsupported("; ".join(P.errors))
    if C.tier == "quick":
        plans = [(2, None), (3, ALPHABET)]
    else:
        plans = [(3, None), (4, ALPHABET)]
    C.bounds = {"plans": [f"{n} chars over " + ("all Unicode scalar values" if a is None else "alphabet " + repr([chr(x) for x in a]))
                          for n, a in plans], "merge": "two fully symbolic 64-bit positions"}
    C.assumptions += [
        "lexer models as in C01 (regex-automata NFAs, LinePositions = LF count / byte column)",
        "positions built elsewhere (Position::todo, diagnostics widened to a line, LSP ranges) are outside the claim; every "
        "reported position is a merge of token positions",
    ]
    hook = {"h": None}

    def ask_lex(s):
        if hook["h"] is None:
            hook["h"] = HookSession("lex")
        return hook["h"].ask({"src": s})

    def native_positions_ok(s):
        """Independent oracle on the real lexer's output for a concrete source."""
        r = ask_lex(s)
        if not isinstance(r, dict) or "tokens" not in r:
            return False, f"lexer hook answered {r}"
        b = s.encode("utf-8")
        bad = []
        items = []
        for t in r["tokens"]:
            items.append(t)
            items.extend(t.get("comments", []))
        for t in items:
            st, en = t["start"], t["end"]
            ok = 0 <= st <= en <= len(b)
            if ok:
                try:
                    b[:st].decode("utf-8"); b[:en].decode("utf-8")
                except UnicodeDecodeError:
                    ok = False
            if ok:
                line = b[:st].count(b"\n")
                col = st - (b[:st].rfind(b"\n") + 1)
                eline = b[:en].count(b"\n")
                ecol = en - (b[:en].rfind(b"\n") + 1)
                ok = (t["line"], t["column"], t["end_line"], t["end_column"]) == (line, col, eline, ecol)
                if not ok:
                    bad.append((t["text"], {"got": (t["line"], t["column"], t["end_line"], t["end_column"]), "want": (line, col, eline, ecol)}))
            else:
                bad.append((t["text"], "offsets"))
        return not bad, str(bad[:2])

    n_tok = 0
    for n, alpha in plans:
        for k in range(0, n + 1):
            if alpha is None and k < n and (n, None) != plans[0]:
                pass
            chars = [z3.BitVec(f"c{i}", 32) for i in range(k)]

            def run(ctx, chars=chars, alpha=alpha):
                if alpha is not None:
                    for c in chars:
                        ctx.assume(z3.Or(*[c == a for a in alpha]))
                return L.run_lexer(P, ctx, chars)
            def handle(i, r, chars=chars, k=k):
                nonlocal n_tok
                C.paths += 1
                if r.kind == "unwind":
                    C.inconclusive.append(f"unwinding bound hit: {r.value}")
                if r.kind != "ok":
                    return      # panics are C01's obligations
                I, src, out = r.value
                C.note_interp(I)
                ts, errs = out
                toks = ts.fields["tokens"].items
                poss = []
                for t in toks:
                    poss.append(("token", t.fields["position"]))
                    for cm in t.fields["preceding_comments"].items:
                        poss.append(("comment", cm[0]))
                for cm in ts.fields["trailing_comments"].items:
                    poss.append(("comment", cm[0]))
                cs = src.chars()
                lens = [stdmodels.clen8(I, c) for c in cs]
                bounds = [0]
                for ln in lens:
                    bounds.append(bounds[-1] + ln)
                total = bounds[-1]

                def lf_before(off):
                    acc = z3.BitVecVal(0, 64)
                    for j, c in enumerate(cs):
                        if bounds[j] < off:
                            acc = acc + z3.If(c.z() == 10, z3.BitVecVal(1, 64), z3.BitVecVal(0, 64))
                    return acc

                def col_at(off):
                    # bytes since the last LF before off
                    expr = z3.BitVecVal(off, 64)
                    for j, c in enumerate(cs):
                        if bounds[j] < off:
                            expr = z3.If(c.z() == 10, z3.BitVecVal(off - bounds[j + 1], 64), expr)
                    return expr
                for kind, p in poss:
                    n_tok += 1
                    f = p.fields
                    st, en = f["start_offset"], f["end_offset"]
                    if not (isinstance(st, Int) and st.conc and isinstance(en, Int) and en.conc):
                        C.inconclusive.append("token offsets are not concrete on a path")
                        continue
                    claim = z3.And(z3.BoolVal(0 <= st.v <= en.v <= total and st.v in bounds and en.v in bounds),
                                   f["line_number"].z() == lf_before(st.v), f["column"].z() == col_at(st.v),
                                   f["end_line_number"].z() == lf_before(en.v), f["end_column"].z() == col_at(en.v))

                    def replay(m, chars=chars):
                        s = L.model_string(m, chars)
                        okp, detail = native_positions_ok(s)
                        return {"reproduced": not okp, "artefact": {"source": s}, "detail": detail}
                    C.prove(f"n{k}/path{i}/{kind}@{st.v}-{en.v}", r.pc, claim, site=f"lexer-position/{kind}/inconsistent",
                            what=f"a {kind} position's line/column fields disagree with its byte offsets", replay=replay,
                            model_desc=lambda m, chars=chars: repr(L.model_string(m, chars)))
                    if n_tok in (5, 50):
                        C.sample({"chars": k, "kind": kind, "start": st.v, "end": en.v, "obligation": "line/column fields == LF count / bytes since LF at start and end"})
            explore(run, max_paths=2000000, on_result=handle)
    C.reach("tokens-examined", [z3.BoolVal(n_tok > 0)])

    # ---- (2) Position::merge on symbolic positions consistent w.r.t. monotone line/column functions
    PP = Program(["src/parser/position.rs", "src/parser/lex.rs"])
    LINE = z3.Function("LINE", z3.BitVecSort(64), z3.BitVecSort(64))
    COL = z3.Function("COL", z3.BitVecSort(64), z3.BitVecSort(64))

    def sym_pos(tag):
        v = {k: z3.BitVec(f"{tag}_{k}", 64) for k in ("s", "e")}
        pos = Struct("Position", {"start_offset": Int(v["s"], 64, False), "end_offset": Int(v["e"], 64, False),
                                  "line_number": Int(LINE(v["s"]), 64, False), "end_line_number": Int(LINE(v["e"]), 64, False),
                                  "column": Int(COL(v["s"]), 64, False), "end_column": Int(COL(v["e"]), 64, False),
                                  "path": Rc(Opaque("path")), "vfs_path": Opaque("vfs")})
        return pos, v

    def run_merge(ctx):
        a, va = sym_pos("a")
        b, vb = sym_pos("b")
        ctx.assume(z3.And(z3.ULE(va["s"], va["e"]), z3.ULE(vb["s"], vb["e"]), z3.ULE(va["s"], vb["s"])))
        # monotonicity of the line function on the offsets involved
        ctx.assume(z3.And(z3.Implies(z3.ULE(va["e"], vb["e"]), z3.ULE(LINE(va["e"]), LINE(vb["e"]))),
                          z3.Implies(z3.ULE(vb["e"], va["e"]), z3.ULE(LINE(vb["e"]), LINE(va["e"])))))
        I = Interp(PP, ctx)
        r = I.call_user(PP.methods[("Position", "merge")], [a, b], "Position")
        return I, r, va, vb
    res = explore(run_merge, max_paths=200)
    C.note_paths(res)
    for i, r in enumerate(res):
        if r.kind == "panic":
            C.prove(f"merge/path{i}:no-panic", r.pc, False, site="merge/panic", what=f"Position::merge panics: {r.value}")
            continue
        if r.kind != "ok":
            continue
        I, m, va, vb = r.value
        C.note_interp(I)
        f = m.fields
        s, e = f["start_offset"].z(), f["end_offset"].z()
        mx = z3.If(z3.UGE(va["e"], vb["e"]), va["e"], vb["e"])
        claim = z3.And(s == va["s"], e == mx, z3.ULE(s, e), f["line_number"].z() == LINE(s), f["column"].z() == COL(s),
                       f["end_line_number"].z() == LINE(e), f["end_column"].z() == COL(e))

        def replay_merge(mm):
            return native_merge_replay()
        C.prove(f"merge/path{i}:consistent", r.pc, claim, site="merge/inconsistent",
                what="merging two consistent positions (first starting no later) gives an inconsistent position", replay=replay_merge)
        C.sample({"merge_path": i, "obligation": "start=a.start, end=max, line/col fields = LINE/COL at those offsets"})

    # translator validation: concrete multi-line / non-ASCII sources through the independent oracle
    for s in ["let x = 1", "a // c\nb", "x\n  y", "héllo = 1", "// only\n", "\"a\"\n\"b\"", "f(1,\n 2)"]:
        okp, detail = native_positions_ok(s)
        if not okp:
            C.validation_mismatch(f"position oracle disagrees with the real lexer on undisputed input {s!r}: {detail}")
        else:
            C.validated_against_impl()
    rep = native_merge_replay()
    if rep["reproduced"]:
        C.prove("merge/native-incomplete-programs", [], False, site="merge/native-range-inconsistent",
                what="`garden check --json` reports an unordered or out-of-line range for an incomplete program", replay=lambda m: rep)
    elif rep["ranges_examined"] == 0:
        C.inconclusive.append("merge replay library produced no diagnostics")
    else:
        C.validated_against_impl(rep["ranges_examined"])
    if hook["h"]:
        hook["h"].close()
    C.models_used |= stdmodels.USED
    # part C: the reporting layer of `garden check` copies positions unchanged
    from checks import c23b
    c23b.run_report_kernel(C)
    C.finish()


if __name__ == "__main__":
    run_check(main)
