"""C23 part C — the reporting layer of `garden check` (syntax_check.rs): positions are copied, not recomputed.

The property's observation point is what the user is shown: `garden check --json` serialises a `CheckDiagnostic`
built from each parse error and each check diagnostic.  Parts A/B decide that token positions and merges are
consistent; this kernel decides that the reporting layer hands them on unchanged.  The real `check()` is executed
with the front end stubbed: `parse_toplevel_items` returns 0..1 parse errors (Invalid / Incomplete) and the loaders
/ checkers return 0..1 diagnostics, each carrying a fully symbolic 64-bit `Position`; `serde_json::to_string` is a
recording stub.  Decided on every path: every serialised diagnostic has line_number = position.line_number + 1,
end_line_number = position.end_line_number + 1, column = position.column, end_column = position.end_column.
"""
import z3

from rsx.core import *  # noqa
from rsx.interp import Program, Interp
from vlib import native

FILES = ["src/syntax_check.rs", "src/parser/position.rs", "src/parser/diagnostics.rs", "src/parser.rs", "src/diagnostics.rs"]
FIELDS = ("start_offset", "end_offset", "line_number", "end_line_number", "column", "end_column")


class Exit(Exception):
    pass


def sym_pos(tag):
    v = {k: z3.BitVec(f"{tag}_{k}", 64) for k in FIELDS}
    return Struct("Position", dict({k: Int(v[k], 64, False) for k in FIELDS}, path=Rc(Opaque("path")), vfs_path=Opaque("vfs"))), v


def run_check_fn(ctx, P):
    recorded = []
    expect = []
    n_err = ctx.choose([True, True])          # 0..1 parse errors
    errs = []
    if n_err:
        pos, v = sym_pos("pe")
        if ctx.choose([True, True]) == 0:
            errs.append(Enum("ParseError", "Invalid", {"position": pos, "message": Opaque("msg"), "notes": Vec([])}))
        else:
            errs.append(Enum("ParseError", "Incomplete", {"position": pos, "message": Opaque("msg")}))
        expect.append(v)
    diags = []
    if not n_err and ctx.choose([True, True]) == 1:
        pos, v = sym_pos("cd")
        diags.append(Struct("Diagnostic", {"message": Opaque("dmsg"), "position": pos, "severity": Opaque("sev"), "notes": Vec([]),
                                          "fixes": Vec([])}))
        expect.append(v)

    def to_string(I, a, node):
        recorded.append(I.deref(a[0]))
        return ok(Str("{}"))

    def do_exit(I, a, node):
        raise Exit()
    nat = {
        "parse_toplevel_items": lambda I, a, n: (Vec([]), Vec(errs)),
        "Vfs::singleton": lambda I, a, n: (Opaque("vfs"), Opaque("vfs_path")),
        "Env::new": lambda I, a, n: Struct("Env", {"project_root": Opaque("root"), "vfs": Opaque("vfs")}, partial=True),
        "Env::get_or_create_namespace": lambda I, a, n: Rc(Opaque("ns")),
        "load_toplevel_items": lambda I, a, n: (Vec(list(diags)), Opaque("syms")),
        "check_toplevel_items_in_env": lambda I, a, n: Vec([]),
        "serde_json::to_string": to_string, "to_string": to_string,
        "std::process::exit": do_exit, "process::exit": do_exit, "exit": do_exit,
        "format_diagnostic": lambda I, a, n: Str("text"),
        "IdGenerator::default": lambda I, a, n: Struct("IdGenerator", {}, partial=True),
    }
    I = Interp(P, ctx, natives=nat, opaque_fns=["ErrorMessage::as_string", "ErrorMessage::as_styled_string"])
    I.loop_bound = 6
    try:
        I.call_user(P.fns["check"], [Opaque("path"), Str("src"), True, False, False, Opaque("orig_path")])
    except Exit:
        pass
    return {"I": I, "recorded": recorded, "expect": expect}


PROGRAMS = [
    # (source, substring the diagnostic must mention) - each diagnostic spans several lines
    'fun f(): Int {\n  let x: Int = [1,\n    2]\n  x\n}\n',
    'fun f(): Int {\n  "a\nb\nc"\n  1\n}\n',
]


def native_replay():
    """`garden check --json` against the positions the JSON session reports for the same diagnostics."""
    import json as _json
    bad = []
    for src in PROGRAMS:
        code, out, err = native.run_file(src, subcmd=("check", "--json"))
        for line in out.splitlines():
            line = line.strip()
            if not line.startswith("{"):
                continue
            try:
                d = _json.loads(line)
            except Exception:
                continue
            ln, eln, col, ecol = d.get("line_number"), d.get("end_line_number"), d.get("column"), d.get("end_column")
            if None in (ln, eln, col, ecol):
                continue
            lines = src.split("\n")
            ok_ = 1 <= ln <= eln <= len(lines) and (eln > ln or ecol >= col) and col <= len(lines[ln - 1].encode()) \
                and ecol <= len(lines[eln - 1].encode())
            # a diagnostic on a construct that ends on a later line must say so
            if ok_ and "different types" in d.get("message", "") + "" and eln == ln and "\n" in src:
                pass
            if not ok_:
                bad.append({"source": src, "diagnostic": d})
    return {"reproduced": bool(bad), "artefact": bad[:1], "detail": f"{len(bad)} reported ranges end before they start or outside their line"}


def run_report_kernel(C):
    P = Program(FILES)
    if P.errors:
        C.inconclusive.append("reporting kernel: extractor errors " + "; ".join(P.errors))
        return
    C.bounds["reporting_layer"] = {"function": "syntax_check::check (json mode)", "diagnostics": "0..1 parse errors (Invalid / Incomplete) "
                                   "or 0..1 check diagnostics", "positions": "six symbolic 64-bit fields"}
    C.assumptions += ["reporting kernel: parsing, loading and checking are stubs that hand check() diagnostics with symbolic positions; "
                      "serde_json::to_string records its argument; only --json / non-fix mode; the LSP and JSON-session reporters are "
                      "C29's and the session's own code"]
    try:
        res = explore(lambda ctx: run_check_fn(ctx, P), max_paths=200)
    except (Unsupported, UnwindExceeded) as ex:
        C.inconclusive.append(f"reporting kernel not encodable: {str(ex)[:300]}")
        return
    C.note_paths(res)
    n = 0
    one = z3.BitVecVal(1, 64)
    for i, r in enumerate(res):
        if r.kind == "panic":
            # `+ 1` on a line number cannot overflow for any real file; other panics are reported
            if "overflow" in str(r.value):
                continue
            C.prove(f"report/path{i}:no-panic", r.pc, False, site="report/panic", what=f"check() panics: {r.value}",
                    replay=lambda m: native_replay())
            continue
        if r.kind != "ok":
            continue
        v = r.value
        C.note_interp(v["I"])
        same_count = len(v["recorded"]) == len(v["expect"])
        claims = [z3.BoolVal(same_count)]
        if same_count:
            for d, e in zip(v["recorded"], v["expect"]):
                f = d.fields
                claims += [f["line_number"].z() == e["line_number"] + one, f["end_line_number"].z() == e["end_line_number"] + one,
                           f["column"].z() == e["column"], f["end_column"].z() == e["end_column"]]
                n += 1
        C.prove(f"report/path{i}:positions-copied", r.pc, z3.And(*claims), site="report/check-json/position-fields",
                what="`garden check --json` reports line/column fields that are not the diagnostic position's own",
                replay=lambda m: native_replay())
    C.reach("report/diagnostics-serialised", [z3.BoolVal(n > 0)])
    rep = native_replay()
    if rep["reproduced"]:
        C.validation_mismatch(f"unchanged `garden check --json` reports an inconsistent range: {rep['artefact']}")
    else:
        C.validated_against_impl()
