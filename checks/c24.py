#!/usr/bin/env python3
"""C24 — sandboxed code cannot touch files, processes or stdin.

Every built-in function / method arm (and every other expression kind) is
driven through the real `eval_expr` dispatcher with `env.enforce_sandbox =
true`, symbolic argument counts/kinds.  Every unmodelled std / third-party
call an arm reaches is recorded; the obligation is that no effect sink
(filesystem, process, stdin, working directory) is reachable on any path.
"""
import os
import re
import sys
import tempfile
import shutil
import subprocess

sys.path.insert(0, os.path.dirname(os.path.dirname(os.path.abspath(__file__))))
import z3  # noqa: E402

from rsx.core import *  # noqa
from rsx import stdmodels  # noqa
from vlib.check import Check, run_check  # noqa
from vlib import machine as M  # noqa
from vlib import native  # noqa
from checks import stepper as S, builtins as B  # noqa

SINK_RE = re.compile(
    r"(^|::)(fs::(?!canonicalize)|File::|OpenOptions|process::|Command::|io::stdin|stdin\b|env::set_current_dir|set_current_dir)"
    r"|\.(read_dir|exists|is_file|is_dir|metadata|symlink_metadata|output|spawn|status|read_line|"
    r"read_to_string|read_to_end|write_all|create_dir|remove_file|remove_dir)$")


def is_sink(call):
    return bool(SINK_RE.search(call))


def call_positions(text):
    """The property quantifies over calls 'in any position': the same call written directly, inside a user function,
    inside a closure, and (one-argument functions) passed as a callback to a prelude higher-order method, where the
    call itself happens in a frame of the built-in prelude."""
    out = [f"let r = {text}", f"fun vw() {{ {text} }}\nlet r = vw()", f"let vc = fun() {{ {text} }}\nlet r = vc()"]
    m = re.match(r"^([A-Za-z_][A-Za-z0-9_:]*)\((.*)\)$", text, re.S)
    if m:
        fn, args = m.group(1), m.group(2)
        depth, top_commas = 0, 0
        in_str = False
        for ch in args:
            if ch == '"':
                in_str = not in_str
            elif not in_str:
                if ch in "([{":
                    depth += 1
                elif ch in ")]}":
                    depth -= 1
                elif ch == "," and depth == 0:
                    top_commas += 1
        if args.strip() and top_commas == 0:
            out.append(f"let r = [{args}].map({fn})")
    return out


def native_sandbox_probe(prelude, text):
    last = None
    for body in call_positions(text):
        last = native_sandbox_probe_one(prelude, body)
        if last["reproduced"]:
            return last
    return last


def native_sandbox_probe_one(prelude, body):
    d = tempfile.mkdtemp(prefix="verif-c24-", dir="/var/tmp")
    try:
        src = (prelude + "\n" if prelude else "") + f"{body}\nprintln(string_repr(r))\n"
        src = src.replace("/var/tmp/verif-scratch-none/sub/p", os.path.join(d, "target"))
        open(os.path.join(d, "main.gdn"), "w").write(src)
        open(os.path.join(d, "target"), "w").write("VERIF_FILE_CONTENT")
        before = sorted(os.listdir(d))
        try:
            r = subprocess.run([native.garden_bin(), "playground-run", os.path.join(d, "main.gdn")], input="VERIF_STDIN_LINE\n",
                               capture_output=True, text=True, timeout=60, cwd=d)
            out = r.stdout + r.stderr
        except subprocess.TimeoutExpired:
            return {"reproduced": True, "artefact": src, "detail": "sandboxed run blocked (timeout)"}
        after = sorted(os.listdir(d))
        try:
            content = open(os.path.join(d, "target")).read()
        except OSError:
            content = None
        refused = "unsafe code in sandboxed mode" in out
        # evidence of an effect: directory changed, file changed/removed, file content or stdin echoed back
        effect = (before != after) or (content != "VERIF_FILE_CONTENT") or ("VERIF_STDIN_LINE" in out) or \
            ("VERIF_FILE_CONTENT" in out)
        return {"reproduced": bool(effect and not refused), "artefact": src,
                "detail": f"refused={refused} effect={effect} out={out[:200]!r}"}
    finally:
        shutil.rmtree(d, ignore_errors=True)


def main():
    C = Check("C24", "sandboxed code cannot touch files, processes or stdin")
    P = M.program()
    max_args = 2 if C.tier == "quick" else 3
    C.bounds = {"argument_counts": f"0..{max_args}", "operands": "symbolic Value_ variant per operand", "steps": "one call step",
                "enforce_sandbox": True}
    C.assumptions += M.NATIVE_NOTES + [
        "sink = an unmodelled std call matching the fixed pattern list (fs, process, stdin, set_current_dir, Path "
        "metadata/exists/read_dir); every unmodelled call reached is listed in the evidence so that a new effect API "
        "shows up in the census",
        "effects through `import` of user files (reads, by design), dbg/print output and get_env are outside the claim; "
        "std::fs::canonicalize (path resolution of the program's own source path in reflect::source_file, no file content "
        "read, nothing created/modified/deleted) is not counted as a sink",
        "a sink candidate is confirmed natively only with evidence of an effect: scratch directory or file changed, file "
        "content or the stdin line echoed back, or the sandboxed run blocking",
        "a built-in method only sees a receiver of the type it is declared on",
    ]
    names = B.display_names(P, "BuiltInFunctionKind")
    nsp = B.namespace_paths(P, "BuiltInFunctionKind")
    paths = S.walk_all(C, P, sandbox=True, max_args=max_args)
    S.check_not_encodable(C, "C24")
    census = {}
    n_sink_free = 0
    n_forbidden = 0
    for label, job, r in paths:
        rec = r.value if r.kind == "ok" else None
        calls = rec["std_calls"] if rec else []
        for c in calls:
            census[c] = census.get(c, 0) + 1
        if rec is None:
            continue
        sinks = [c for c in calls if is_sink(c)]
        for st in rec["steps"]:
            if "ForbiddenInSandbox" in str(st.get("err", "")):
                n_forbidden += 1

        def replay(_m, rec=rec):
            rec["model"] = _m
            sns = S.snippet_alternatives(P, rec, names, nsp)
            rec["model"] = None
            if not sns:
                return {"reproduced": False, "detail": "no snippet"}

            def native_part():
                last = None
                for sn in sns:
                    last = native_sandbox_probe(*sn)
                    if last["reproduced"]:
                        return last
                return last
            return native_part
        C.prove_deferred(f"{label}:no-sink", r.pc, not sinks, site=f"{S.job_family(label)}/sink/{sinks[0] if sinks else ''}",
                         what=f"with enforce_sandbox set the step reaches {sinks[:3]}", replay=replay, soft=r.tainted,
                         model_desc=lambda m, rec=rec: {"step": rec["job"]})
        if not sinks:
            n_sink_free += 1
    C.resolve_deferred(workers=8)
    C.reach("paths-explored", [z3.BoolVal(n_sink_free > 0)])
    C.reach("some-arm-refuses-in-sandbox", [z3.BoolVal(n_forbidden > 0)])
    C.extra["std_call_census"] = dict(sorted(census.items(), key=lambda kv: -kv[1])[:120])
    C.extra["sink_pattern"] = SINK_RE.pattern
    C.extra["paths_refused_with_ForbiddenInSandbox"] = n_forbidden
    C.sample({"census_top": list(sorted(census.items(), key=lambda kv: -kv[1]))[:8]})

    # syntactic companion, regenerated each run: sinks occur nowhere in eval.rs outside the two dispatchers
    src = open(os.path.join(native.REPO, "src/eval.rs")).read()
    fns = {}
    for name in ("eval_built_in_call", "eval_built_in_method_call"):
        f = P.fns.get(name)
        if f:
            fns[name] = (f["line"], f["end_line"])
    stray = []
    helpers_ok = ("read_src", "describe_read_error", "load_toplevel_items_", "insert_imported_namespace", "unwrap_path",
                  "check_snippet")
    helper_spans = [(P.fns[h]["line"], P.fns[h]["end_line"]) for h in helpers_ok if h in P.fns]
    for i, line in enumerate(src.splitlines(), 1):
        if re.search(r"std::fs::|std::process::|Command::new|io::stdin\(|set_current_dir", line) and not line.strip().startswith("//"):
            inside = any(a <= i <= b for a, b in fns.values()) or any(a <= i <= b for a, b in helper_spans)
            in_tests = "mod tests" in src[: src.find(line)] and i > P.fns["eval_toplevel_exprs"]["end_line"]
            if not inside and not in_tests:
                stray.append((i, line.strip()[:80]))
    C.extra["effect_calls_outside_dispatchers"] = stray
    if stray:
        C.inconclusive.append(f"effect API used outside the built-in dispatchers and import helpers: {stray[:3]}")

    # translator validation of the probe itself
    ok1 = native_sandbox_probe('import "__fs.gdn" as vns', 'vns::read_file(Path{ p: "/etc/hostname" })')
    if ok1["reproduced"]:
        C.validation_mismatch(f"probe claims fs::read_file is not refused: {ok1['detail']}")
    else:
        C.validated_against_impl()
    C.models_used |= stdmodels.USED
    C.finish()


if __name__ == "__main__":
    run_check(main)
