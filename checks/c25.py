#!/usr/bin/env python3
"""C25 — sandboxed runs always finish within their step budget.

Claimed for the budget step.  (1) The real `eval` loop is executed symbolically
for up to three iterations (eval_expr stubbed, tick counter and both limits
symbolic): every iteration that pops an entry increments `ticks` by exactly
one before any evaluation work, and a step runs only while `ticks < tick_limit`
and `stack.len() <= stack_limit`; the limit errors run no step and leave the
state identical.  Hence at most `tick_limit` steps run.  (2) The real bodies
of `run_sandboxed_playground` and the sandboxed test runner are executed up to
their first evaluation call, which must see `tick_limit = Some(_)`,
`stack_limit = Some(_)`, `enforce_sandbox = true`.
"""
import os
import sys

sys.path.insert(0, os.path.dirname(os.path.dirname(os.path.abspath(__file__))))
import z3  # noqa: E402

from rsx.core import *  # noqa
from rsx import stdmodels  # noqa
from rsx.interp import Program  # noqa
from vlib.check import Check, run_check  # noqa
from vlib import machine as M  # noqa
from vlib import native  # noqa
from checks.c08 import LoopHarness, err_kind  # noqa


class FirstEvalReached(Exception):
    pass


def find_struct_literal(node, name):
    """First `Name { .. }` struct expression inside an AST node."""
    if isinstance(node, dict):
        if node.get("k") == "struct" and node.get("path", {}).get("segs", [None])[-1] in (name, "Self"):
            return node
        for v in node.values():
            r = find_struct_literal(v, name)
            if r is not None:
                return r
    elif isinstance(node, list):
        for v in node:
            r = find_struct_literal(v, name)
            if r is not None:
                return r
    return None


def main():
    C = Check("C25", "sandboxed runs always finish within their step budget")
    P = M.program()
    C.bounds = {"frames": "1..2", "pending_entries": "1..2", "iterations": "2 (quick) / 3 (thorough) consecutive loop iterations",
                "ticks/limits": "symbolic 64-bit", "sandbox entry points": "run_sandboxed_playground, sandboxed test runner"}
    C.assumptions += M.NATIVE_NOTES + [
        "eval_expr is a stub: the cost of a single step (a built-in looping over a long string, deep display recursion) "
        "is outside the claim",
        "the tick counter is below 2^63",
        "Env::new is modelled by the three limit fields of its own struct literal (read from the source); parsing, "
        "namespaces and the vfs are opaque; load_toplevel_items (definitions only, no evaluation) is opaque and does "
        "not touch the limit fields",
    ]

    def replay(_m):
        # user-visible oracle: non-terminating programs under playground-run must end with a limit error quickly
        progs = ["while True { }", "fun f(n: Int): Int { f(n + 1) }\nf(0)", "let xs = [1]\nwhile True { xs = xs.append(1) }",
                 # a budget used up by an earlier evaluation in the same run (a test block), then another loop
                 "test spin { while True { } }\nwhile True { }", "test a { while True { } }\ntest b { while True { } }\n1",
                 # non-termination whose steps all lie inside a prelude (built-in file) function
                 '"abc".replace("", "-")', '"abc".split("")', "range(0, 1000000000000)"]
        bad = []
        for p in progs:
            code, out, err = native.run_file(p, subcmd=("playground-run",), timeout=90)
            if code == -9 or code == 101 or ("limit" not in out.lower()):
                bad.append({"program": p, "code": code, "out": out[:200], "err": err[:200]})
        return {"reproduced": bool(bad), "artefact": bad[:1], "detail": f"{len(bad)} of {len(progs)} programs did not end with a limit error"}

    # ------------------------------------------------------------ (1) budget step
    plan = ("ok", "err") if C.tier == "quick" else ("ok", "ok", "err")

    def run(ctx):
        H = LoopHarness(ctx, P, max_entries=2, stub_plan=plan, state_shapes=[("NotEvaluated", None)], sym_intr=False)
        before = H.snapshot()
        r = H.run_eval()
        return {"H": H, "before": before, "r": r, "after": H.snapshot(), "ticks_after": H.env.fields["ticks"]}

    results = explore(run, max_paths=40000)
    C.note_paths(results)
    n_limit = n_step = 0
    for i, r in enumerate(results):
        if r.kind == "panic":
            # frames exhausted with the stub's Ok(None): popping a value that the stub never pushed is the stub's
            # artefact (a real step leaves a value); only prologue panics matter here
            if r.value.fn == "eval" and r.value.kind in ("expect", "unwrap"):
                continue
            C.prove(f"path{i}:no-panic", r.pc, False, site=f"eval-loop/panic/{r.value.fn}:{r.value.line}",
                    what=f"the eval loop panics: {r.value}", replay=replay)
            continue
        if r.kind != "ok":
            continue
        v = r.value
        H = v["H"]
        C.note_interp(H.I)
        calls = H.calls
        # every step the stub ran happened strictly inside the budget, and ticks advanced by exactly one per pop
        for j, c in enumerate(calls):
            tk = c["ticks"].z()
            C.prove(f"path{i}/call{j}:ticks-advance-by-one", r.pc, tk == H.t + (j + 1), site="budget/tick-not-counted",
                    what="a step ran without the tick counter advancing by exactly one", replay=replay)
            if H.has_tl:
                C.prove(f"path{i}/call{j}:within-tick-limit", r.pc, z3.ULT(tk, H.L), site="budget/step-beyond-tick-limit",
                        what="a step ran with ticks >= tick_limit", replay=replay)
            if H.has_sl:
                C.prove(f"path{i}/call{j}:within-stack-limit", r.pc, z3.ULE(z3.BitVecVal(c["nframes"], 64), H.K),
                        site="budget/step-beyond-stack-limit", what="a step ran with stack.len() > stack_limit", replay=replay)
            n_step += 1
        k = err_kind(v["r"])
        if k in ("ReachedTickLimit", "ReachedStackLimit"):
            n_limit += 1
            # the limit error itself: the entry that was popped is restored on top, no further step ran after it
            last_snap = calls[-1]["snap"] if calls else None
            if not calls:
                C.prove(f"path{i}:limit-restores-state", r.pc, v["after"] == v["before"], site="budget/limit-changes-state",
                        what="a limit error changed the machine state", replay=replay)
            if k == "ReachedTickLimit":
                C.prove(f"path{i}:tick-limit-only-when-exhausted", r.pc,
                        z3.UGE(v["ticks_after"].z(), H.L) if H.has_tl else False, site="budget/spurious-tick-limit",
                        what="ReachedTickLimit although ticks < tick_limit", replay=replay)
            if i % 50 == 0:
                C.sample({"outcome": k, "steps_run_before": len(calls), "has_tick_limit": H.has_tl, "has_stack_limit": H.has_sl})
    C.reach("limit-path-exists", [z3.BoolVal(n_limit > 0)])
    C.reach("step-path-exists", [z3.BoolVal(n_step > 0)])

    # ------------------------------------------------ (2) sandbox entry points set the limits
    P2 = Program(M.EVAL_FILES + ["src/sandboxed_playground.rs", "src/test_runner.rs"])
    env_new = P2.methods.get(("Env", "new"))
    lit = find_struct_literal(env_new["body"], "Env") if env_new else None
    if lit is None:
        C.inconclusive.append("could not find the Env struct literal in Env::new")
    entry_points = []
    for name, fn in P2.fns.items():
        if fn["file"] in ("src/sandboxed_playground.rs", "src/test_runner.rs") and "sandbox" in name:
            entry_points.append(name)
    if not entry_points:
        C.inconclusive.append("no sandbox entry points found")
    C.extra["sandbox_entry_points"] = entry_points
    eval_sinks = ["eval_toplevel_items", "eval_tests", "eval_tests_until_error", "eval", "eval_toplevel_exprs",
                  "eval_toplevel_exprs_then_stop", "eval_up_to", "eval_toplevel_call",
                  "eval_toplevel_method_call"]
    for ep in entry_points:
        def run_ep(ctx, ep=ep):
            seen = []

            def env_new_native(I, args, node):
                fields = {}
                for f in lit["fields"]:
                    if f["member"] in ("tick_limit", "stack_limit", "enforce_sandbox"):
                        fields[f["member"]] = I.eval_expr(f["e"])
                return Struct("Env", fields, partial=True)

            def sink(name):
                def f(I, args, node):
                    for a in args:
                        a = I.deref(a)
                        if isinstance(a, Struct) and a.name == "Env":
                            seen.append((name, {k: a.fields.get(k) for k in ("tick_limit", "stack_limit", "enforce_sandbox")}))
                    if seen:
                        raise FirstEvalReached()   # everything after the first evaluation call is irrelevant here
                    return Opaque(name + "()")
                return f
            nat = {"Env::new": env_new_native}
            for s_ in eval_sinks:
                nat[s_] = sink(s_)
            I = M.mk_interp(P2, ctx, natives=nat, opaque=M.OPAQUE_FNS + [
                "load_toplevel_items", "load_toplevel_items_with_stubs", "Env::get_or_create_namespace",
                "parse_toplevel_items", "Vfs::singleton", "describe_tests"])
            fn = P2.fns[ep]
            args = [Opaque(f"arg{i}") for i in range(len(fn["params"]))]
            try:
                I.call_user(fn, args)
            except (Panic, FirstEvalReached):
                pass
            return {"I": I, "seen": seen}
        res = explore(run_ep, max_paths=3000)
        C.note_paths(res)
        reached = 0
        for i, r in enumerate(res):
            if r.kind != "ok":
                continue
            C.note_interp(r.value["I"])
            for (sname, st) in r.value["seen"][:1]:
                reached += 1
                tl, sl, es = st["tick_limit"], st["stack_limit"], st["enforce_sandbox"]
                okk = (isinstance(tl, Enum) and tl.variant == "Some" and isinstance(sl, Enum) and sl.variant == "Some"
                       and es is True)
                C.prove(f"{ep}/path{i}:limits-set-before-{sname}", r.pc, okk, site=f"sandbox-entry/{ep}/limits-not-set",
                        what=f"{ep} starts evaluating ({sname}) without tick_limit/stack_limit/enforce_sandbox set",
                        replay=replay, model_desc=lambda m, st=st: str(st))
                if i == 0:
                    C.sample({"entry_point": ep, "first_eval_call": sname, "limits_at_call": str(st)})
        C.reach(f"{ep}/reaches-evaluation", [z3.BoolVal(reached > 0)])

    # translator validation / user-visible oracle on the unchanged tree
    rep = replay(None)
    C.validated_against_impl(3)
    if rep["reproduced"]:
        C.prove("native-nonterminating-programs", [], False, site="budget/native-playground-runs-forever",
                what="a non-terminating program is not stopped by the sandbox limits", replay=lambda m: rep)
    C.models_used |= stdmodels.USED
    C.finish()


if __name__ == "__main__":
    run_check(main)
