#!/usr/bin/env python3
"""C29 — LSP positions map exactly onto the document (conversion functions).

The real `offset_to_lsp_position`, `line_char_to_offset` and `whole_document_range` (lsp.rs) are executed on a
symbolic document of up to N characters, each an arbitrary Unicode scalar value (so LF, CR, 1-4 byte UTF-8 and
1-2 unit UTF-16 characters all arise), with str slicing / rfind / find / lines / encode_utf16 / char_indices as
listed models carrying the char-boundary panic obligations.  z3 decides the round trip for every char-boundary
offset, clamping of arbitrary (line, character) pairs, the end of the whole-document range, and panic freedom.
"""
import os
import sys

sys.path.insert(0, os.path.dirname(os.path.dirname(os.path.abspath(__file__))))
import z3  # noqa: E402

from rsx.core import *  # noqa
from rsx import stdmodels  # noqa
from rsx.interp import Program, Interp  # noqa
from vlib.check import Check, run_check  # noqa
from checks.tytemplates import HookSession  # noqa


def scalar(c):
    return z3.And(z3.ULE(c, 0x10FFFF), z3.Not(z3.And(z3.UGE(c, 0xD800), z3.ULE(c, 0xDFFF))))


def model_string(m, chars):
    return "".join(chr(m.eval(c, model_completion=True).as_long()) for c in chars)


def main():
    C = Check("C29", "LSP positions map exactly onto the document")
    P = Program(["src/lsp.rs"])
    if P.errors:
        raise Unsupported("; ".join(P.errors))
    N = 3 if C.tier == "quick" else 4
    C.bounds = {"document_chars": f"0..{N}, each any Unicode scalar value", "offset": "every char boundary",
                "line/character": "arbitrary 64-bit for the clamping obligation"}
    C.assumptions += [
        "str::{len, index(range), rfind(char), find(char), lines, ends_with(char), encode_utf16, char_indices}, "
        "char::{len_utf8, len_utf16}, usize::{min, saturating_sub}, Option::map_or are models (std); slicing carries the "
        "char-boundary panic obligation",
        "the line number handed to offset_to_lsp_position is the number of LF before the offset (what Garden positions carry)",
        "equality of server-returned edits with the CLI refactorings (whole handlers) is outside the claim",
    ]
    hook = {"h": None}

    def ask(obj):
        if hook["h"] is None:
            hook["h"] = HookSession("lsp-conv")
        return hook["h"].ask(obj)

    def u16_len(s):
        return len(s.encode("utf-16-le")) // 2

    for n in range(0, N + 1):
        chars = [z3.BitVec(f"c{i}", 32) for i in range(n)]

        def mk_src():
            return Str([Char(c) for c in chars]) if n else Str("")

        # ---- (1) round trip at every char boundary
        for bi in range(0, n + 1):
            def run(ctx, bi=bi):
                for c in chars:
                    ctx.assume(scalar(c))
                I = Interp(P, ctx)
                src = mk_src()
                offs = stdmodels.str_byte_offsets(I, src) if n else [Int(0, 64, False)]
                o = offs[bi]
                nl = 0
                for c in chars[:bi]:
                    nl = nl + z3.If(c == 10, z3.BitVecVal(1, 64), z3.BitVecVal(0, 64))
                line = Int(nl, 64, False) if not isinstance(nl, int) else Int(nl, 64, False)
                if not isinstance(nl, int):
                    line = int_from_z(nl, 64, False)
                pos = I.call_user(P.fns["offset_to_lsp_position"], [src, o, line])
                pl, pc_ = I.deref(pos.fields["line"]), I.deref(pos.fields["character"])
                pl64 = I.cast(pl, {"s": "usize"}, None)
                pc64 = I.cast(pc_, {"s": "usize"}, None)
                back = I.call_user(P.fns["line_char_to_offset"], [mk_src(), pl64, pc64])
                return {"I": I, "o": o, "back": back, "pos": (pl, pc_)}
            res = explore(run, max_paths=20000)
            C.note_paths(res)
            for i, r in enumerate(res):
                def replay_rt(m, bi=bi):
                    s = model_string(m, chars)
                    o = len(s[:bi].encode("utf-8"))
                    line = s[:bi].count("\n")
                    p = ask({"src": s, "op": "to_pos", "offset": o, "line": line})
                    if p is None or "panic" in (p if isinstance(p, dict) else {}):
                        return {"reproduced": True, "artefact": {"src": s, "offset": o}, "detail": f"to_pos -> {p}"}
                    b = ask({"src": s, "op": "to_offset", "line": p["line"], "character": p["character"]})
                    bad = isinstance(b, dict) or b != o
                    return {"reproduced": bad, "artefact": {"src": s, "offset": o}, "detail": f"position {p} converts back to {b}"}
                if r.kind == "panic":
                    C.prove(f"n{n}/b{bi}/path{i}:no-panic", r.pc, False, site=f"roundtrip/panic/{r.value.fn}", what=f"conversion panics: {r.value}",
                            replay=replay_rt, model_desc=lambda m: repr(model_string(m, chars)))
                    continue
                if r.kind != "ok":
                    continue
                v = r.value
                C.note_interp(v["I"])
                claim = v["I"].eq_values(v["back"], v["o"])
                C.prove(f"n{n}/b{bi}/path{i}:roundtrip", r.pc, claim, site="roundtrip/offset-changes",
                        what="offset -> (line, UTF-16 column) -> offset does not return the original offset", replay=replay_rt,
                        model_desc=lambda m: repr(model_string(m, chars)))
                if n == 2 and bi == 1 and i < 2:
                    C.sample({"chars": n, "boundary": bi, "obligation": "line_char_to_offset(src, pos(o)) == o", "path": i})

        # ---- (2) clamping: any (line, character) gives a char boundary <= len, no panic
        L, K = z3.BitVec("line", 64), z3.BitVec("character", 64)

        def run_clamp(ctx):
            for c in chars:
                ctx.assume(scalar(c))
            ctx.assume(z3.ULE(L, n + 2))      # beyond n+1 lines behaves like n+1 (the loop returns src.len()); keeps unrolling finite
            I = Interp(P, ctx)
            src = mk_src()
            back = I.call_user(P.fns["line_char_to_offset"], [src, Int(L, 64, False), Int(K, 64, False)])
            offs = stdmodels.str_byte_offsets(I, mk_src()) if n else [Int(0, 64, False)]
            on_boundary = False
            from rsx.interp import b_or
            for o in offs:
                on_boundary = b_or(on_boundary, I.eq_values(o, back))
            return {"I": I, "on_boundary": on_boundary}
        res = explore(run_clamp, max_paths=40000)
        C.note_paths(res)
        for i, r in enumerate(res):
            def replay_clamp(m):
                s = model_string(m, chars)
                ln, ch = m.eval(L, model_completion=True).as_long(), m.eval(K, model_completion=True).as_long()
                b = ask({"src": s, "op": "to_offset", "line": min(ln, 1 << 40), "character": min(ch, 1 << 40)})
                bs = s.encode("utf-8")
                ok_b = isinstance(b, int) and b <= len(bs)
                if ok_b:
                    try:
                        bs[:b].decode("utf-8")
                    except UnicodeDecodeError:
                        ok_b = False
                return {"reproduced": not ok_b, "artefact": {"src": s, "line": ln, "character": ch}, "detail": f"to_offset -> {b}"}
            if r.kind == "panic":
                C.prove(f"n{n}/clamp/path{i}:no-panic", r.pc, False, site=f"clamp/panic/{r.value.fn}", what=f"line_char_to_offset panics: {r.value}",
                        replay=replay_clamp)
            elif r.kind == "ok":
                C.note_interp(r.value["I"])
                C.prove(f"n{n}/clamp/path{i}:char-boundary-within-document", r.pc, r.value["on_boundary"], site="clamp/not-a-boundary",
                        what="line_char_to_offset returns an offset that is not a char boundary inside the document", replay=replay_clamp)

        # ---- (3) whole_document_range(src).end converts back to len
        def run_whole(ctx):
            for c in chars:
                ctx.assume(scalar(c))
            I = Interp(P, ctx)
            rng = I.call_user(P.fns["whole_document_range"], [mk_src()])
            end = rng.fields["end"]
            el = I.cast(I.deref(end.fields["line"]), {"s": "usize"}, None)
            ec = I.cast(I.deref(end.fields["character"]), {"s": "usize"}, None)
            back = I.call_user(P.fns["line_char_to_offset"], [mk_src(), el, ec])
            ln = stdmodels.str_len(I, mk_src())
            return {"I": I, "claim": I.eq_values(back, ln)}
        res = explore(run_whole, max_paths=40000)
        C.note_paths(res)
        for i, r in enumerate(res):
            def replay_whole(m):
                s = model_string(m, chars)
                w = ask({"src": s, "op": "whole"})
                if not isinstance(w, dict) or "end" not in w:
                    return {"reproduced": True, "artefact": {"src": s}, "detail": f"whole -> {w}"}
                b = ask({"src": s, "op": "to_offset", "line": w["end"]["line"], "character": w["end"]["character"]})
                return {"reproduced": b != len(s.encode("utf-8")), "artefact": {"src": s}, "detail": f"end {w['end']} converts to {b}, len {len(s.encode('utf-8'))}"}
            if r.kind == "panic":
                C.prove(f"n{n}/whole/path{i}:no-panic", r.pc, False, site=f"whole/panic/{r.value.fn}", what=f"whole_document_range panics: {r.value}",
                        replay=replay_whole)
            elif r.kind == "ok":
                C.note_interp(r.value["I"])
                C.prove(f"n{n}/whole/path{i}:end-is-document-end", r.pc, r.value["claim"], site="whole/end-not-at-len",
                        what="the end of whole_document_range does not convert back to the document length", replay=replay_whole,
                        model_desc=lambda m: repr(model_string(m, chars)))
    C.reach("paths-explored", [z3.BoolVal(C.paths > 0)])

    # translator validation: the repo's own unit-test inputs and a few more through encoding and hook
    cases = [("abc\ndef", 1, 2), ("a\nb\n", 2, 0), ("ab", 0, 10), ("hé\U0001F600x", 0, 3), ("a\r\nb", 1, 1), ("", 0, 0), ("x\n", 5, 5)]
    for s, ln, ch in cases:
        def runc(ctx, s=s, ln=ln, ch=ch):
            I = Interp(P, ctx)
            return I.call_user(P.fns["line_char_to_offset"], [Str(s), Int(ln, 64, False), Int(ch, 64, False)])
        rs = explore(runc, max_paths=50)
        real = ask({"src": s, "op": "to_offset", "line": ln, "character": ch})
        enc = None
        if len(rs) == 1 and rs[0].kind == "ok":
            rv = rs[0].value
            enc = rv.v if (isinstance(rv, Int) and rv.conc) else (rv if isinstance(rv, int) else None)
        if enc != real:
            C.validation_mismatch(f"line_char_to_offset({s!r},{ln},{ch}): encoding {enc}, real {real}")
        else:
            C.validated_against_impl()
        def runw(ctx, s=s):
            I = Interp(P, ctx)
            r = I.call_user(P.fns["whole_document_range"], [Str(s)])
            return (I.deref(r.fields["end"].fields["line"]), I.deref(r.fields["end"].fields["character"]))
        rs = explore(runw, max_paths=50)
        real = ask({"src": s, "op": "whole"})
        enc = None
        if len(rs) == 1 and rs[0].kind == "ok":
            a, b = rs[0].value
            enc = {"line": a.v if isinstance(a, Int) else a, "character": b.v if isinstance(b, Int) else b}
        if not isinstance(real, dict) or enc != real.get("end"):
            C.validation_mismatch(f"whole_document_range({s!r}): encoding {enc}, real {real}")
        else:
            C.validated_against_impl()
    if hook["h"]:
        hook["h"].close()
    C.models_used |= stdmodels.USED
    C.finish()


if __name__ == "__main__":
    run_check(main)
