#!/usr/bin/env python3
"""C34 — only public definitions are visible through imports (runtime visibility step).

Executes the real `eval_expr` arm for `NamespaceAccess` in
EvaluatedSubexpressions state (-> eval_namespace_access) on a namespace whose
membership of the accessed symbol in `values` and in `exported_syms` is
symbolic (names are one-character strings with symbolic characters), and asks
z3 whether a value is pushed exactly when the symbol is in both sets.
"""
import os
import sys
import tempfile
import shutil

sys.path.insert(0, os.path.dirname(os.path.dirname(os.path.abspath(__file__))))
import z3  # noqa: E402

from rsx.core import *  # noqa
from rsx import stdmodels  # noqa
from vlib.check import Check, run_check  # noqa
from vlib import machine as M  # noqa
from vlib import native  # noqa


def sym_name(label):
    c = z3.BitVec(label, 32)
    return Struct("SymbolName", {"text": Str([Char(c)])}), c


def main():
    C = Check("C34", "only public definitions are visible through imports")
    P = M.program()
    C.bounds = {"namespace_values": "0..2 entries", "exported_syms": "0..2 entries",
                "names": "one symbolic character each (equality is all the step looks at)", "steps": "one"}
    C.assumptions += M.NATIVE_NOTES + [
        "FxHashMap/FxHashSet are modelled as association lists with pairwise-distinct keys",
        "checker side (infer_namespace_access) and cyclic loading are outside the claim; unqualified imports are covered at "
        "the copy step (insert_imported_namespace)",
    ]

    def replay(_m):
        d = tempfile.mkdtemp(dir="/var/tmp")
        try:
            open(os.path.join(d, "lib.gdn"), "w").write("public fun pubf(): Int { privf() + 1 }\nfun privf(): Int { 41 }\n")
            bad = []
            for call, want in (("m::pubf()", "42"), ("m::privf()", None), ("m::nosuch()", None), ("UNUSED m::privf", None)):
                if call.startswith("UNUSED "):
                    main = f'import "./lib.gdn" as m\nif True {{ {call[7:]} }}\nprintln("reached")\n'
                else:
                    main = f'import "./lib.gdn" as m\nprintln(string_repr({call}))\n'
                open(os.path.join(d, "main.gdn"), "w").write(main)
                import subprocess
                r = subprocess.run([native.garden_bin(), "run", os.path.join(d, "main.gdn")], capture_output=True,
                                   text=True, timeout=20, stdin=subprocess.DEVNULL)
                out = r.stdout + r.stderr
                if r.returncode == 101 or "panicked" in out:
                    bad.append((call, "panic"))
                elif want is not None and r.stdout.strip() != want:
                    bad.append((call, out[:200]))
                elif want is None and "Exception" not in out and "Error" not in out:
                    bad.append((call, "reachable: " + out[:200]))
            return {"reproduced": bool(bad), "artefact": {"lib.gdn": "public fun pubf / fun privf", "calls": bad},
                    "detail": str(bad)[:400]}
        finally:
            shutil.rmtree(d, ignore_errors=True)

    s_name, s_c = sym_name("sym")
    k = [sym_name(f"k{i}") for i in range(2)]
    e = [sym_name(f"e{i}") for i in range(2)]

    def run(ctx):
        nv = ctx.choose([True, True, True])
        ne = ctx.choose([True, True, True])
        if nv == 2:
            ctx.assume(k[0][1] != k[1][1])
        if ne == 2:
            ctx.assume(e[0][1] != e[1][1])
        vals = [M.mk_value(Opaque(f"nsval{i}")) for i in range(nv)]
        ns = Struct("NamespaceInfo", {"values": Map([(k[i][0], vals[i]) for i in range(nv)]),
                                      "exported_syms": Map([(e[i][0], UNIT) for i in range(ne)]),
                                      "abs_path": Opaque("abs_path")}, partial=True)
        recv = M.mk_value(Enum("Value_", "Namespace", {"ns_info": Rc(ns), "imported_name_sym": Opaque("isym")}))
        sentinel = M.mk_value(Opaque("below"))
        frame = M.mk_frame(values=[sentinel, recv])
        env = M.mk_env([frame])
        I = M.mk_interp(P, ctx)
        used = z3.Bool("value_is_used")
        symbol = Struct("Symbol", {"name": s_name, "position": Opaque("spos"), "interned_id": Opaque("iid")}, partial=True)
        recv_expr = Rc(Struct("Expression", {"position": Opaque("rpos")}, partial=True))
        expr = Rc(Struct("Expression", {"expr_": Enum("Expression_", "NamespaceAccess", [recv_expr, symbol]),
                                        "position": Opaque("pos"), "value_is_used": used, "id": Opaque("id")}, partial=True))
        st = [Enum("ExpressionState", "EvaluatedSubexpressions", [])]
        sref = Ref(lambda: st[0], lambda v: st.__setitem__(0, v))
        r = I.call_user(P.fns["eval_expr"], [env, Struct("Session", {}, partial=True), expr, sref])
        in_vals = z3.Or(*[k[i][1] == s_c for i in range(nv)]) if nv else z3.BoolVal(False)
        in_exp = z3.Or(*[e[i][1] == s_c for i in range(ne)]) if ne else z3.BoolVal(False)
        return {"I": I, "r": r, "frame": frame, "sentinel": sentinel, "recv": recv, "vals": vals, "nv": nv, "ne": ne,
                "in_vals": in_vals, "in_exp": in_exp, "used": used}

    results = explore(run)
    C.note_paths(results)
    n_ok = n_err = 0
    for i, r in enumerate(results):
        if r.kind == "panic":
            C.prove(f"path{i}:no-panic", r.pc, False, site="namespace-access/panic", what=f"namespace access panics: {r.value}",
                    replay=replay)
            continue
        if r.kind != "ok":
            continue
        v = r.value
        C.note_interp(v["I"])
        items = v["frame"].fields["evalled_values"].items
        visible = z3.And(v["in_vals"], v["in_exp"])
        if M.result_kind(v["r"]) == "Ok":
            n_ok += 1
            same = lambda a, b: M.value_ident(a) == M.value_ident(b)
            pushed = len(items) == 2 and items[0] is v["sentinel"] and any(same(items[1], x) for x in v["vals"])
            untouched = len(items) == 1 and items[0] is v["sentinel"]
            # the access succeeds only for a public definition, whether or not its value is used; the value is
            # pushed exactly when it is used
            shape_ok = z3.If(v["used"], z3.BoolVal(pushed), z3.BoolVal(untouched))
            C.prove(f"path{i}/values{v['nv']}/exported{v['ne']}:value-only-if-public", r.pc,
                    z3.And(visible, shape_ok), site="namespace-access/non-public-reachable",
                    what="`ns::sym` yields a value although sym is not both defined and public in ns", replay=replay,
                    model_desc=lambda m, v=v: {"values": v["nv"], "exported": v["ne"], "model": str(m)[:200]})
            # and it is that symbol's own value
            idx = [j for j, x in enumerate(v["vals"]) if len(items) == 2 and same(items[1], x)]
            if idx:
                C.prove(f"path{i}:value-is-the-symbols", r.pc, k[idx[0]][1] == s_c, site="namespace-access/wrong-value",
                        what="`ns::sym` yields another symbol's value", replay=replay)
            if n_ok <= 2:
                C.sample({"outcome": "value pushed", "values_entries": v["nv"], "exported_entries": v["ne"],
                          "obligation": "pc => sym in values & sym in exported_syms"})
        elif M.result_kind(v["r"]) == "Err":
            n_err += 1
            C.prove(f"path{i}/values{v['nv']}/exported{v['ne']}:error-only-if-not-public", r.pc, z3.Not(visible),
                    site="namespace-access/public-refused", what="`ns::sym` is refused although sym is defined and public",
                    replay=replay)
            rv = v["r"].fields[0][0].fields["0"].items
            okr = len(rv) == 1 and rv[0].fields["0"].ident == v["recv"].fields["0"].ident and len(items) == 1 \
                and items[0] is v["sentinel"]
            C.prove(f"path{i}:error-restores-receiver", r.pc, okr, site="namespace-access/restore",
                    what="a refused namespace access does not restore exactly the receiver", replay=replay)
    # ---- unqualified import: only exported symbols are copied into the importing namespace
    def run_unq(ctx):
        nv = ctx.choose([True, True, True])
        ne = ctx.choose([True, True, True])
        if nv == 2:
            ctx.assume(k[0][1] != k[1][1])
        if ne == 2:
            ctx.assume(e[0][1] != e[1][1])
        vals = [M.mk_value(Opaque(f"nsval{i}")) for i in range(nv)]
        imported = Struct("NamespaceInfo", {"values": Map([(k[i][0], vals[i]) for i in range(nv)]),
                                            "exported_syms": Map([(e[i][0], UNIT) for i in range(ne)]),
                                            "abs_path": Opaque("abs_path")}, partial=True)
        current = Struct("NamespaceInfo", {"values": Map([]), "exported_syms": Map([]), "abs_path": Opaque("cur")}, partial=True)
        I = M.mk_interp(P, ctx)
        syms = I.call_user(P.fns["insert_imported_namespace"], [NONE, Rc(current), Rc(imported)])
        return {"I": I, "current": current, "vals": vals, "nv": nv, "ne": ne}
    res = explore(run_unq)
    C.note_paths(res)
    n_unq = 0
    for i, r in enumerate(res):
        if r.kind == "panic":
            C.prove(f"unqualified/path{i}:no-panic", r.pc, False, site="unqualified-import/panic", what=f"insert_imported_namespace panics: {r.value}")
            continue
        if r.kind != "ok":
            continue
        n_unq += 1
        v = r.value
        C.note_interp(v["I"])
        copied = v["current"].fields["values"].entries
        # every copied entry is one of the imported values and its name is exported
        for (ck, cv) in copied:
            j = [jj for jj, x in enumerate(v["vals"]) if M.value_ident(x) == M.value_ident(cv)]
            name_c = ck.fields["text"].chars()[0].z()
            exported = z3.Or(*[e[t][1] == name_c for t in range(v["ne"])]) if v["ne"] else z3.BoolVal(False)
            okc = z3.And(exported, k[j[0]][1] == name_c) if j else z3.BoolVal(False)
            C.prove(f"unqualified/path{i}:copied-is-public", r.pc, okc, site="unqualified-import/private-copied",
                    what="an unqualified import copies a definition that is not exported (or under another name)", replay=replay)
        # every exported imported entry is copied
        for jj in range(v["nv"]):
            exported = z3.Or(*[e[t][1] == k[jj][1] for t in range(v["ne"])]) if v["ne"] else z3.BoolVal(False)
            present = z3.BoolVal(any(M.value_ident(cv) == M.value_ident(v["vals"][jj]) for (_, cv) in copied))
            C.prove(f"unqualified/path{i}/v{jj}:public-is-copied", r.pc, z3.Implies(exported, present), site="unqualified-import/public-missing",
                    what="an unqualified import does not copy an exported definition", replay=replay)
    C.reach("unqualified-import-paths", [z3.BoolVal(n_unq > 0)])
    C.reach("value-path-exists", [z3.BoolVal(n_ok > 0)])
    C.reach("error-path-exists", [z3.BoolVal(n_err > 0)])
    rep = replay(None)
    C.validated_against_impl(3)
    if rep["reproduced"]:
        C.prove("native-two-file-project", [], False, site="namespace-access/native", what="native visibility probe failed",
                replay=lambda m: rep)
    C.models_used |= stdmodels.USED
    # part B: the loader's import arm performs the copy / alias step for every resolved import
    from checks import c34b
    c34b.run_loader_kernel(C, P)
    c34b.run_fun_item_kernel(C, P)
    # part C: the checker's side of `ns::item`
    from checks import c34c
    c34c.run_checker_kernel(C, P)
    C.resolve_deferred(workers=2)
    C.finish()


if __name__ == "__main__":
    run_check(main)
