"""C34 part B — the loader's import arm: every resolved import reaches the copy / alias step.

Part A decides the run-time visibility check and the copy step (`insert_imported_namespace`) themselves.  "Exactly the
public definitions are reachable" also needs the loader to *perform* that step for every import it resolves — the
first time a file is loaded and every later time the same file is imported again (diamonds, duplicate imports,
cycles).  The real `load_toplevel_items_` is executed on one `import` item, with or without an `as` alias, with the
path already in `paths_seen` or not (the set's answer is forked), with file reading / parsing / the recursive load
stubbed, and `insert_imported_namespace` replaced by a recording stub.  Decided on every path on which the import
resolves (file seen before, or read and parsed without errors): the step runs exactly once, with this import's alias
(or none), the importing namespace and the imported file's namespace.
"""
import z3

from rsx.core import *  # noqa
from rsx.interp import Interp
from vlib import native


def run_import(ctx, P):
    calls = []
    alias = ctx.choose([True, True])
    ns_sym = some(Struct("Symbol", {"name": Struct("SymbolName", {"text": Str("m")}), "position": Opaque("alias.pos"),
                                    "id": Opaque("alias.id")}, partial=True)) if alias else NONE
    info = Struct("ImportInfo", {"pos": Opaque("imp.pos"), "path": Opaque("imp.path"), "path_pos": Opaque("imp.ppos"),
                                 "namespace_sym": ns_sym, "id": Opaque("imp.id")}, partial=True)
    item = Enum("ToplevelItem", "Import", [info])
    cur_ns = Rc(Opaque("current_ns"))
    seen_ns = Rc(Opaque("ns_of_seen_file"))
    new_ns = Rc(Opaque("ns_of_loaded_file"))
    state = {"read_ok": None, "parse_ok": None, "recursed": 0}

    def nat_insert(I, a, n):
        calls.append((I.deref(a[0]), a[1], a[2]))
        return Vec([])

    def nat_read(I, a, n):
        state["read_ok"] = ctx.choose([True, True]) == 0
        return ok(Str("src")) if state["read_ok"] else err(Struct("Diagnostic", {}, partial=True))

    def nat_parse(I, a, n):
        state["parse_ok"] = ctx.choose([True, True]) == 0
        return (Vec([]), Vec([])) if state["parse_ok"] else (Vec([]), Vec([Opaque("parse_error")]))
    real_loader = P.fns["load_toplevel_items_"]

    def nat_loader(I, a, n):
        state["recursed"] += 1
        return (Vec([]), Vec([]))
    nat = {"insert_imported_namespace": nat_insert, "read_src": nat_read, "parse_toplevel_items": nat_parse,
           "insert_placeholder_namespace": lambda I, a, n: UNIT,
           "Env::get_namespace": lambda I, a, n: some(seen_ns), "Env::get_or_create_namespace": lambda I, a, n: new_ns,
           "ToplevelItem::position": lambda I, a, n: Struct("Position", {"path": Opaque("item.path")}, partial=True)}
    I = Interp(P, ctx, natives=nat, opaque_fns=["ParseError::message", "ParseError::position", "ErrorMessage::as_string"])
    I.loop_bound = 6
    env = Struct("Env", {"working_directory": Opaque("cwd"), "vfs": Opaque("vfs"), "id_gen": Opaque("idgen")}, partial=True)
    paths_seen = Opaque("paths_seen")
    # the outer call is the real function; the recursive call for the imported file is the stub
    first = {"done": False}

    def dispatch(I_, a, n):
        if not first["done"]:
            first["done"] = True
            return I_.call_user(real_loader, a, skip_native=True)
        return nat_loader(I_, a, n)
    I.natives["load_toplevel_items_"] = dispatch
    r = I.call_user(real_loader, [Vec([item], "slice"), env, paths_seen, cur_ns, False])
    diags = r[0] if isinstance(r, tuple) else None
    n_diags = len(diags.items) if isinstance(diags, Vec) else -1
    return {"I": I, "calls": calls, "alias": bool(alias), "state": dict(state), "cur": cur_ns, "seen": seen_ns, "new": new_ns,
            "n_diags": n_diags}


def native_replay():
    """Project shapes in which a file is imported more than once: every importer must still see its public function."""
    import os
    import shutil
    import subprocess
    import tempfile
    shapes = {
        "diamond": {"lib.gdn": "public fun base(): Int { 1 }\n", "mid.gdn": 'import "./lib.gdn"\npublic fun viamid(): Int { base() + 1 }\n',
                    "main.gdn": 'import "./mid.gdn"\nimport "./lib.gdn"\nprintln(string_repr(base() + viamid()))\n'},
        "diamond2": {"lib.gdn": "public fun base(): Int { 1 }\n", "mid.gdn": 'import "./lib.gdn"\npublic fun viamid(): Int { base() + 1 }\n',
                     "main.gdn": 'import "./lib.gdn"\nimport "./mid.gdn"\nprintln(string_repr(base() + viamid()))\n'},
        "twice": {"lib.gdn": "public fun base(): Int { 1 }\n",
                  "main.gdn": 'import "./lib.gdn" as l\nimport "./lib.gdn"\nprintln(string_repr(base() + l::base() + 1))\n'},
    }
    bad = []
    for name, files in shapes.items():
        d = tempfile.mkdtemp(prefix="verif-c34-", dir="/var/tmp")
        try:
            for fn, src in files.items():
                open(os.path.join(d, fn), "w").write(src)
            r = subprocess.run([native.garden_bin(), "run", os.path.join(d, "main.gdn")], capture_output=True, text=True, timeout=60,
                               stdin=subprocess.DEVNULL, cwd=d)
            if r.stdout.strip() != "3":
                bad.append({"shape": name, "files": files, "out": (r.stdout + r.stderr)[:200]})
        finally:
            shutil.rmtree(d, ignore_errors=True)
    return {"reproduced": bool(bad), "artefact": bad[:1], "detail": f"{len(bad)} of {len(shapes)} repeated-import projects do not see a public function"}


def run_loader_kernel(C, P):
    C.bounds["loader_import_arm"] = {"items": "one import", "alias": "with / without `as`", "file": "seen before or not; read and parse succeed or fail"}
    C.assumptions += ["loader kernel: path arithmetic and the paths_seen set are opaque (both answers explored); reading, parsing and the "
                      "recursive load of the imported file are stubs; insert_imported_namespace is a recording stub (its body is part A)"]
    try:
        res = explore(lambda ctx: run_import(ctx, P), max_paths=2000)
    except (Unsupported, UnwindExceeded) as ex:
        C.inconclusive.append(f"loader import arm not encodable: {str(ex)[:300]}")
        return
    C.note_paths(res)
    n_resolved = 0
    for i, r in enumerate(res):
        if r.kind == "panic":
            C.prove_deferred(f"loader/path{i}:no-panic", r.pc, False, site="loader/import/panic", what=f"the loader panics on an import: {r.value}",
                             replay=lambda m: native_replay, soft=r.tainted)
            continue
        if r.kind != "ok":
            continue
        v = r.value
        C.note_interp(v["I"])
        st = v["state"]
        loaded_now = st["read_ok"] is True and st["parse_ok"] is True
        seen_before = st["read_ok"] is None      # the loader did not try to read the file: it took the already-seen branch (or bailed out earlier)
        if seen_before and v["n_diags"] != 0:
            continue                               # the arm's first exit: no parent directory, a diagnostic instead of an import
        if st["read_ok"] is False or st["parse_ok"] is False:
            continue                               # unreadable / unparsable file: nothing to make reachable
        expect_ns = v["new"] if loaded_now else v["seen"]
        okc = len(v["calls"]) == 1 and v["calls"][0][1] is v["cur"] and v["calls"][0][2] is expect_ns and \
            ((isinstance(v["calls"][0][0], Enum) and v["calls"][0][0].variant == "Some") == v["alias"])
        n_resolved += 1
        kind = "first-load" if loaded_now else "seen-before"
        C.prove_deferred(f"loader/path{i}/{kind}/alias={v['alias']}:import-step-runs", r.pc, okc,
                         site=f"loader/import/{kind}/step-missing",
                         what=f"an import ({'with' if v['alias'] else 'without'} alias, file {kind}) does not run the copy/alias step exactly once "
                              f"with the importing and imported namespaces (calls: {len(v['calls'])})",
                         replay=lambda m: native_replay, soft=False,
                         model_desc=lambda m, v=v, kind=kind: {"alias": v["alias"], "file": kind, "step_calls": len(v["calls"])})
    C.reach("loader/import-paths-exist", [z3.BoolVal(n_resolved > 0)])
    rep = native_replay()
    if rep["reproduced"]:
        C.validation_mismatch(f"repeated-import projects fail on the unchanged tree: {rep['artefact']}")
    else:
        C.validated_against_impl(3)
