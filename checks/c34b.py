"""C34 part B — the loader's import arm: every resolved import reaches the copy / alias step.

Part A decides the run-time visibility check and the copy step (`insert_imported_namespace`) themselves.  "Exactly the
public definitions are reachable" also needs the loader to *perform* that step for every import it resolves — the
first time a file is loaded and every later time the same file is imported again (diamonds, duplicate imports,
cycles).  The real `load_toplevel_items_` is executed on one `import` item, with or without an `as` alias, with the
path already in `paths_seen` or not (the set's answer is forked), with file reading / parsing / the recursive load
stubbed, and `insert_imported_namespace` replaced by a recording stub.  Decided on every path on which the import
resolves (file seen before, or read and parsed without errors): the step runs exactly once, with this import's alias
(or none), the importing namespace and the imported file's namespace.
"""
import z3

from rsx.core import *  # noqa
from rsx.interp import Interp
from vlib import native


def run_import(ctx, P):
    calls = []
    alias = ctx.choose([True, True])
    ns_sym = some(Struct("Symbol", {"name": Struct("SymbolName", {"text": Str("m")}), "position": Opaque("alias.pos"),
                                    "id": Opaque("alias.id")}, partial=True)) if alias else NONE
    info = Struct("ImportInfo", {"pos": Opaque("imp.pos"), "path": Opaque("imp.path"), "path_pos": Opaque("imp.ppos"),
                                 "namespace_sym": ns_sym, "id": Opaque("imp.id")}, partial=True)
    item = Enum("ToplevelItem", "Import", [info])
    cur_ns = Rc(Opaque("current_ns"))
    seen_ns = Rc(Opaque("ns_of_seen_file"))
    new_ns = Rc(Opaque("ns_of_loaded_file"))
    state = {"read_ok": None, "parse_ok": None, "recursed": 0}

    def nat_insert(I, a, n):
        calls.append((I.deref(a[0]), a[1], a[2]))
        return Vec([])

    def nat_read(I, a, n):
        state["read_ok"] = ctx.choose([True, True]) == 0
        return ok(Str("src")) if state["read_ok"] else err(Struct("Diagnostic", {}, partial=True))

    def nat_parse(I, a, n):
        state["parse_ok"] = ctx.choose([True, True]) == 0
        return (Vec([]), Vec([])) if state["parse_ok"] else (Vec([]), Vec([Opaque("parse_error")]))
    real_loader = P.fns["load_toplevel_items_"]

    def nat_loader(I, a, n):
        state["recursed"] += 1
        return (Vec([]), Vec([]))
    nat = {"insert_imported_namespace": nat_insert, "read_src": nat_read, "parse_toplevel_items": nat_parse,
           "insert_placeholder_namespace": lambda I, a, n: UNIT,
           "Env::get_namespace": lambda I, a, n: some(seen_ns), "Env::get_or_create_namespace": lambda I, a, n: new_ns,
           "ToplevelItem::position": lambda I, a, n: Struct("Position", {"path": Opaque("item.path")}, partial=True)}
    I = Interp(P, ctx, natives=nat, opaque_fns=["ParseError::message", "ParseError::position", "ErrorMessage::as_string"])
    I.loop_bound = 6
    env = Struct("Env", {"working_directory": Opaque("cwd"), "vfs": Opaque("vfs"), "id_gen": Opaque("idgen")}, partial=True)
    paths_seen = Opaque("paths_seen")
    # the outer call is the real function; the recursive call for the imported file is the stub
    first = {"done": False}

    def dispatch(I_, a, n):
        if not first["done"]:
            first["done"] = True
            return I_.call_user(real_loader, a, skip_native=True)
        return nat_loader(I_, a, n)
    I.natives["load_toplevel_items_"] = dispatch
    r = I.call_user(real_loader, [Vec([item], "slice"), env, paths_seen, cur_ns, False])
    diags = r[0] if isinstance(r, tuple) else None
    n_diags = len(diags.items) if isinstance(diags, Vec) else -1
    return {"I": I, "calls": calls, "alias": bool(alias), "state": dict(state), "cur": cur_ns, "seen": seen_ns, "new": new_ns,
            "n_diags": n_diags}


def native_replay():
    """Project shapes in which a file is imported more than once: every importer must still see its public function."""
    import os
    import shutil
    import subprocess
    import tempfile
    shapes = {
        "diamond": {"lib.gdn": "public fun base(): Int { 1 }\n", "mid.gdn": 'import "./lib.gdn"\npublic fun viamid(): Int { base() + 1 }\n',
                    "main.gdn": 'import "./mid.gdn"\nimport "./lib.gdn"\nprintln(string_repr(base() + viamid()))\n'},
        "diamond2": {"lib.gdn": "public fun base(): Int { 1 }\n", "mid.gdn": 'import "./lib.gdn"\npublic fun viamid(): Int { base() + 1 }\n',
                     "main.gdn": 'import "./lib.gdn"\nimport "./mid.gdn"\nprintln(string_repr(base() + viamid()))\n'},
        "twice": {"lib.gdn": "public fun base(): Int { 1 }\n",
                  "main.gdn": 'import "./lib.gdn" as l\nimport "./lib.gdn"\nprintln(string_repr(base() + l::base() + 1))\n'},
    }
    bad = []
    for name, files in shapes.items():
        d = tempfile.mkdtemp(prefix="verif-c34-", dir="/var/tmp")
        try:
            for fn, src in files.items():
                open(os.path.join(d, fn), "w").write(src)
            r = subprocess.run([native.garden_bin(), "run", os.path.join(d, "main.gdn")], capture_output=True, text=True, timeout=60,
                               stdin=subprocess.DEVNULL, cwd=d)
            if r.stdout.strip() != "3":
                bad.append({"shape": name, "files": files, "out": (r.stdout + r.stderr)[:200]})
        finally:
            shutil.rmtree(d, ignore_errors=True)
    return {"reproduced": bool(bad), "artefact": bad[:1], "detail": f"{len(bad)} of {len(shapes)} repeated-import projects do not see a public function"}


def run_loader_kernel(C, P):
    C.bounds["loader_import_arm"] = {"items": "one import", "alias": "with / without `as`", "file": "seen before or not; read and parse succeed or fail"}
    C.assumptions += ["loader kernel: path arithmetic and the paths_seen set are opaque (both answers explored); reading, parsing and the "
                      "recursive load of the imported file are stubs; insert_imported_namespace is a recording stub (its body is part A)"]
    try:
        res = explore(lambda ctx: run_import(ctx, P), max_paths=2000)
    except (Unsupported, UnwindExceeded) as ex:
        C.inconclusive.append(f"loader import arm not encodable: {str(ex)[:300]}")
        return
    C.note_paths(res)
    n_resolved = 0
    for i, r in enumerate(res):
        if r.kind == "panic":
            C.prove_deferred(f"loader/path{i}:no-panic", r.pc, False, site="loader/import/panic", what=f"the loader panics on an import: {r.value}",
                             replay=lambda m: native_replay, soft=r.tainted)
            continue
        if r.kind != "ok":
            continue
        v = r.value
        C.note_interp(v["I"])
        st = v["state"]
        loaded_now = st["read_ok"] is True and st["parse_ok"] is True
        seen_before = st["read_ok"] is None      # the loader did not try to read the file: it took the already-seen branch (or bailed out earlier)
        if seen_before and v["n_diags"] != 0:
            continue                               # the arm's first exit: no parent directory, a diagnostic instead of an import
        if st["read_ok"] is False or st["parse_ok"] is False:
            continue                               # unreadable / unparsable file: nothing to make reachable
        expect_ns = v["new"] if loaded_now else v["seen"]
        okc = len(v["calls"]) == 1 and v["calls"][0][1] is v["cur"] and v["calls"][0][2] is expect_ns and \
            ((isinstance(v["calls"][0][0], Enum) and v["calls"][0][0].variant == "Some") == v["alias"])
        n_resolved += 1
        kind = "first-load" if loaded_now else "seen-before"
        C.prove_deferred(f"loader/path{i}/{kind}/alias={v['alias']}:import-step-runs", r.pc, okc,
                         site=f"loader/import/{kind}/step-missing",
                         what=f"an import ({'with' if v['alias'] else 'without'} alias, file {kind}) does not run the copy/alias step exactly once "
                              f"with the importing and imported namespaces (calls: {len(v['calls'])})",
                         replay=lambda m: native_replay, soft=False,
                         model_desc=lambda m, v=v, kind=kind: {"alias": v["alias"], "file": kind, "step_calls": len(v["calls"])})
    C.reach("loader/import-paths-exist", [z3.BoolVal(n_resolved > 0)])
    rep = native_replay()
    if rep["reproduced"]:
        C.validation_mismatch(f"repeated-import projects fail on the unchanged tree: {rep['artefact']}")
    else:
        C.validated_against_impl(3)


# ---------------------------------------------------------------------------------------------------------------------
# Part D — the loader's `fun` arm maintains `exported_syms`: after loading `fun f` / `public fun f`, f is exported iff
# this definition is public — also when f was defined before with the other visibility (a file that defines a name
# twice, or a session that re-evaluates a definition) — and no other name's export status changes.

def run_fun_item(ctx, P):
    import z3 as _z3
    fc = _z3.BitVec("d_fname", 32)
    oc = _z3.BitVec("d_other", 32)
    fname = Struct("SymbolName", {"text": Str([Char(fc)])})
    oname = Struct("SymbolName", {"text": Str([Char(oc)])})
    public = ctx.choose([True, True]) == 0
    n_exp = ctx.choose([True, True])        # exported_syms before: empty, or one symbolic name (possibly f itself)
    n_val = ctx.choose([True, True])        # values before: empty, or the same symbolic name bound to an older value
    stub = ctx.choose([True, True]) == 0    # is_built_in_stub answers either way
    old_val = Opaque("older_definition")
    ns = Struct("NamespaceInfo", {"values": Map([(oname, old_val)] if n_val else []),
                                  "exported_syms": Map([(oname, UNIT)] if n_exp else []),
                                  "abs_path": Opaque("abs_path")}, partial=True)
    name_symbol = Struct("Symbol", {"name": fname, "position": Opaque("f.pos"), "id": Opaque("f.id")}, partial=True)
    vis = Enum("Visibility", "Public", [Opaque("pub.pos")]) if public else Enum("Visibility", "CurrentFile", [])
    item = Enum("ToplevelItem", "Fun", [name_symbol, Opaque("fun_info"), vis])
    nat = {"is_built_in_stub": lambda I, a, n: stub, "update_built_in_fun_info": lambda I, a, n: UNIT,
           "Type::from_fun_info": lambda I, a, n: ok(Opaque("fun_ty")), "Stack::type_bindings": lambda I, a, n: Opaque("tb"),
           "ToplevelItem::position": lambda I, a, n: Struct("Position", {"path": Opaque("item.path")}, partial=True)}
    I = Interp(P, ctx, natives=nat, opaque_fns=[])
    I.loop_bound = 6
    env = Struct("Env", {"types": Opaque("types"), "stack": Opaque("stack"), "id_gen": Opaque("idgen")}, partial=True)
    I.call_user(P.fns["load_toplevel_items_"], [Vec([item], "slice"), env, Opaque("paths_seen"), Rc(ns), False])
    exp_after = [kv[0] for kv in ns.fields["exported_syms"].entries]
    val_after = [kv[0] for kv in ns.fields["values"].entries]

    def member(names, c):
        cs = [nm.fields["text"].chars()[0].z() for nm in names]
        return _z3.Or(*[x == c for x in cs]) if cs else _z3.BoolVal(False)
    return {"I": I, "public": public, "stub": stub, "n_exp": n_exp, "n_val": n_val,
            "f_exported": member(exp_after, fc), "f_defined": member(val_after, fc),
            "o_exported": member(exp_after, oc), "same_name": fc == oc}


def native_replay_redefinition():
    """A library that defines the same name twice with different visibility: the last definition's visibility counts."""
    import os
    import shutil
    import subprocess
    import tempfile
    cases = {
        "public-then-private": ("public fun v(): Int { 1 }\nfun v(): Int { 2 }\npublic fun w(): Int { 5 }\n", False),
        "private-then-public": ("fun v(): Int { 1 }\npublic fun v(): Int { 2 }\npublic fun w(): Int { 5 }\n", True),
    }
    bad = []
    for name, (lib, reachable) in cases.items():
        for main in ('import "./lib.gdn" as l\nprintln(string_repr(l::v()))\n', 'import "./lib.gdn"\nprintln(string_repr(v()))\n'):
            d = tempfile.mkdtemp(prefix="verif-c34d-", dir="/var/tmp")
            try:
                open(os.path.join(d, "lib.gdn"), "w").write(lib)
                open(os.path.join(d, "main.gdn"), "w").write(main)
                r = subprocess.run([native.garden_bin(), "run", os.path.join(d, "main.gdn")], capture_output=True, text=True, timeout=60,
                                   stdin=subprocess.DEVNULL, cwd=d)
                got = r.stdout.strip() == "2"
                if r.returncode == 101 or got != reachable:
                    bad.append({"case": name, "lib": lib, "main": main, "out": (r.stdout + r.stderr)[:200]})
            finally:
                shutil.rmtree(d, ignore_errors=True)
    return {"reproduced": bool(bad), "artefact": bad[:1], "detail": f"{len(bad)} of 4 redefinition projects see the wrong visibility"}


def run_fun_item_kernel(C, P):
    import z3 as _z3
    C.bounds["loader_fun_arm"] = {"items": "one `fun` item, public or not, built-in stub or not",
                                  "namespace_before": "exported_syms and values empty or holding one symbolic name (possibly the same name)"}
    C.assumptions += ["loader fun-arm kernel: Type::from_fun_info, is_built_in_stub (both answers) and update_built_in_fun_info are stubs"]
    try:
        res = explore(lambda ctx: run_fun_item(ctx, P), max_paths=2000)
    except (Unsupported, UnwindExceeded) as ex:
        C.inconclusive.append(f"loader fun arm not encodable: {str(ex)[:300]}")
        return
    C.note_paths(res)
    rep_cache = {}

    def rp(m):
        if "r" not in rep_cache:
            rep_cache["r"] = native_replay_redefinition()
        return rep_cache["r"]
    n = 0
    for i, r in enumerate(res):
        if r.kind == "panic":
            C.prove_deferred(f"loader-fun/path{i}:no-panic", r.pc, False, site="loader/fun/panic", what=f"the loader panics on a fun item: {r.value}",
                             replay=rp, soft=r.tainted)
            continue
        if r.kind != "ok":
            continue
        v = r.value
        C.note_interp(v["I"])
        n += 1
        tag = f"loader-fun/path{i}/public={v['public']}/exported_before={v['n_exp']}"
        C.prove_deferred(f"{tag}:exported-iff-public", r.pc, v["f_exported"] == _z3.BoolVal(v["public"]),
                         site="loader/fun/export-status-stale",
                         what=f"after loading a {'public' if v['public'] else 'non-public'} `fun f`, f's membership of exported_syms does not "
                              f"match this definition's visibility",
                         replay=rp, soft=False, model_desc=lambda m, v=v: {"public": v["public"], "exported_before": v["n_exp"], "model": str(m)[:120]})
        if not v["stub"]:
            C.prove_deferred(f"{tag}:defined", r.pc, v["f_defined"], site="loader/fun/not-defined",
                             what="after loading `fun f`, f is not in the namespace's values", replay=rp, soft=False)
        if v["n_exp"]:
            C.prove_deferred(f"{tag}:others-unchanged", r.pc, _z3.Implies(_z3.Not(v["same_name"]), v["o_exported"]),
                             site="loader/fun/other-export-dropped", what="loading `fun f` changes another name's export status",
                             replay=rp, soft=False)
    C.reach("loader/fun-paths-exist", [_z3.BoolVal(n > 0)])
    rep = native_replay_redefinition()
    if rep["reproduced"]:
        C.validation_mismatch(f"redefinition projects fail on the unchanged tree: {rep['artefact']}")
    else:
        C.validated_against_impl(4)
