"""C34 part C — the checker's side of `ns::item`: a non-public item is an Error at check time.

The property asks for the refusal "at check time and at run time".  Part A decides the run-time arm; here the real
`TypeCheckVisitor::infer_namespace_access` (type_checker.rs) is executed on a receiver variable that resolves — through
a stubbed `get_var` — to a `Value_::Namespace` whose `values` map and `exported_syms` set hold 0..2 entries with
symbolic one-character names, for a symbolic accessed name.  `check_expr` on the receiver, `Type::from_value`,
`fun_info()` (forked: a function with / without a name symbol, or not a function) and the position bookkeeping are
stubs.  Decided on every path by z3:

* the name is defined and not exported  =>  an Error-severity diagnostic positioned at the accessed symbol is pushed;
* the name is defined and exported      =>  no Error-severity diagnostic is pushed and the returned type is
                                             `Type::from_value` of that name's own value;
* the name is not defined               =>  an Error-severity diagnostic is pushed and the result is an error type.

The receiver being a local variable / not a variable / unbound / not a namespace only yields warnings or error types
and is explored for panic-freedom.
"""
import os
import shutil
import subprocess
import tempfile

import z3

from rsx.core import *  # noqa
from rsx.interp import Interp
from vlib import native


def sym_name(label):
    c = z3.BitVec(label, 32)
    return Struct("SymbolName", {"text": Str([Char(c)])}), c


_REPLAY = {}


def native_replay():
    if "r" not in _REPLAY:
        _REPLAY["r"] = native_replay_()
    return _REPLAY["r"]


def native_replay_():
    """`garden check` on a two-file project: private access must be reported as an Error, public access must not."""
    d = tempfile.mkdtemp(prefix="verif-c34c-", dir="/var/tmp")
    bad = []
    try:
        open(os.path.join(d, "lib.gdn"), "w").write(
            "public fun pubf(): Int { privf() + 1 }\nfun privf(): Int { 41 }\npublic fun pubg(): Int { 2 }\n"
            "enum Color { Red, Green }\n")
        cases = [("m::pubf()", False), ("m::privf()", True), ("m::nosuch()", True), ("m::pubg()", False),
                 ("m::pubf() + m::privf()", True), ("m::privf() + m::pubf()", True),
                 ("m::Red", True)]      # a private item that is not a function (an enum variant value)
        for call, want_error in cases:
            for wrap in ("println(string_repr({}))\n", "fun user(): Int {{ {} }}\nuser()\n"):
                main = 'import "./lib.gdn" as m\n' + wrap.format(call)
                open(os.path.join(d, "main.gdn"), "w").write(main)
                r = subprocess.run([native.garden_bin(), "check", os.path.join(d, "main.gdn")], capture_output=True, text=True,
                                   timeout=60, stdin=subprocess.DEVNULL, cwd=d)
                txt = r.stdout + r.stderr
                if r.returncode == 101 or "panicked" in txt:
                    bad.append({"main": main, "out": "panic"})
                    continue
                vis_err = any(line.startswith("Error") and ("not marked as" in line or "does not contain an item" in line)
                              for line in txt.splitlines())
                if vis_err != want_error:
                    bad.append({"main": main, "want_visibility_error": want_error, "out": txt[:300]})
    finally:
        shutil.rmtree(d, ignore_errors=True)
    return {"reproduced": bool(bad), "artefact": bad[:2], "detail": f"{len(bad)} of 14 `garden check` visibility probes disagree"}


def run_access(ctx, P, names):
    (s_name, s_c), k, e = names
    nv = ctx.choose([True, True, True])
    ne = ctx.choose([True, True, True])
    if nv == 2:
        ctx.assume(k[0][1] != k[1][1])
    if ne == 2:
        ctx.assume(e[0][1] != e[1][1])
    item_kind = ctx.choose([True, True, True])      # named function / anonymous function / not a function

    def mk_item(i):
        if item_kind == 2:
            inner = Enum("Value_", "Int", [Int(i, 64, True)])
        else:
            ns_ = some(Struct("Symbol", {"name": Opaque(f"fname{i}"), "position": Opaque(f"fname{i}.pos"), "id": Opaque(f"fid{i}")},
                              partial=True)) if item_kind == 0 else NONE
            inner = Enum("Value_", "Fun", {"name_sym": Opaque(f"fsym{i}"),
                                           "fun_info": Struct("FunInfo", {"name_sym": ns_, "pos": Opaque(f"fun{i}.pos")}, partial=True),
                                           "runtime_type": Opaque("rt")})
        return Struct("Value", {"0": Rc(inner)})
    vals = [mk_item(i) for i in range(nv)]
    ns = Struct("NamespaceInfo", {"values": Map([(k[i][0], vals[i]) for i in range(nv)]),
                                  "exported_syms": Map([(e[i][0], UNIT) for i in range(ne)]),
                                  "abs_path": Opaque("abs_path")}, partial=True)
    isym = Struct("Symbol", {"name": Struct("SymbolName", {"text": Str("m")}), "position": Opaque("isym.pos"),
                             "id": Opaque("isym.id")}, partial=True)
    ns_value = Struct("Value", {"0": Rc(Enum("Value_", "Namespace", {"ns_info": Rc(ns), "imported_name_sym": isym}))})
    recv_kind = ctx.choose([True, True, True, True, True])  # namespace / local / not a variable / unbound / not a namespace
    from_value_calls = []
    from_value_rets = []
    state = {"recv_kind": recv_kind}

    def nat_get_var(I, a, n):
        if recv_kind == 3:
            return NONE
        if recv_kind == 4:
            return some(Struct("Value", {"0": Rc(Enum("Value_", "Int", [Int(1, 64, True)]))}))
        return some(ns_value)

    def nat_bind_get(I, a, n):
        if recv_kind == 1:
            err_ty = ctx.choose([True, True]) == 0
            ty = Enum("Type", "Error", {"msg": Opaque("m"), "inferred_type": NONE}) if err_ty else Enum("Type", "Any", [])
            return some((ty, Opaque("binding.pos")))
        return NONE

    def inner_of(I, v):
        v = I.deref(v)
        if isinstance(v, Rc):
            v = I.deref(v.inner)
        if isinstance(v, Struct) and v.name == "Value":
            v = I.deref(v.fields["0"])
            v = I.deref(v.inner) if isinstance(v, Rc) else v
        return v

    def nat_as_ref(I, a, n):
        return inner_of(I, a[0])

    def nat_fun_info(I, a, n):
        v = inner_of(I, a[0])
        if isinstance(v, Enum) and v.variant == "Fun":
            return some(v.fields["fun_info"])
        return NONE

    def nat_from_value(I, a, n):
        v = I.deref(a[0])
        from_value_calls.append(v)
        t = Opaque("ty.from_value")
        from_value_rets.append(t)
        return t
    nat = {"TypeCheckVisitor::check_expr": lambda I, a, n: Opaque("ty.recv"), "TypeCheckVisitor::get_var": nat_get_var,
           "FakeBindings::get": nat_bind_get, "FakeMap::insert": lambda I, a, n: NONE,
           "Value::fun_info": nat_fun_info, "Value::as_ref": nat_as_ref, "Type::from_value": nat_from_value,
           "Env::relative_to_project": lambda I, a, n: Opaque("relpath"), "Type::namespace": lambda I, a, n: Opaque("ty.namespace")}
    I = Interp(P, ctx, natives=nat, opaque_fns=["Path::display", "PathBuf::display"])
    I.loop_bound = 6
    V = Struct("TypeCheckVisitor", {"env": Struct("Env", {}, partial=True), "diagnostics": Vec([]),
                                    "bindings": Struct("FakeBindings", {}), "id_to_def_pos": Struct("FakeMap", {}),
                                    "id_to_ty": Struct("FakeMap", {})}, partial=True)
    recv_sym = Struct("Symbol", {"name": Struct("SymbolName", {"text": Str("m")}), "position": Opaque("recv.sympos"),
                                 "id": Opaque("recv.symid")}, partial=True)
    recv_e = Enum("Expression_", "Variable", [recv_sym]) if recv_kind != 2 else Enum("Expression_", "Invalid", [])
    recv = Struct("Expression", {"expr_": recv_e, "position": Opaque("recv.pos"), "value_is_used": True, "id": Opaque("recv.id")},
                  partial=True)
    sym_pos = Opaque("sym.pos")
    symbol = Struct("Symbol", {"name": s_name, "position": sym_pos, "id": Opaque("sym.id")}, partial=True)
    r = I.call_user(P.methods[("TypeCheckVisitor", "infer_namespace_access")],
                    [V, recv, symbol, Opaque("type_bindings"), Opaque("expected_return_ty")], "TypeCheckVisitor")
    diags = V.fields["diagnostics"].items
    errors = []
    for dg in diags:
        dg = I.deref(dg)
        sev = dg.fields.get("severity") if isinstance(dg, Struct) else None
        if (isinstance(sev, Enum) and sev.variant == "Error") or (isinstance(sev, FnRef) and sev.name.endswith("Severity::Error")):
            errors.append(dg)
    in_vals = z3.Or(*[k[i][1] == s_c for i in range(nv)]) if nv else z3.BoolVal(False)
    in_exp = z3.Or(*[e[i][1] == s_c for i in range(ne)]) if ne else z3.BoolVal(False)
    def at_sym(p):
        p = I.deref(p)
        return p is sym_pos or (isinstance(p, Opaque) and str(p.label).startswith("sym.pos"))
    err_at_sym = any(at_sym(dg.fields.get("position")) for dg in errors)
    ret_is_error = isinstance(r, Enum) and r.variant == "Error"
    ret_from_value = any(I.deref(r) is t for t in from_value_rets)
    which = [j for j, x in enumerate(vals) if from_value_calls and (from_value_calls[-1] is x)]
    return {"I": I, "recv_kind": recv_kind, "nv": nv, "ne": ne, "in_vals": in_vals, "in_exp": in_exp, "n_errors": len(errors),
            "err_at_sym": err_at_sym, "ret_is_error": ret_is_error, "ret_from_value": ret_from_value, "which": which,
            "n_diags": len(diags)}


def run_checker_kernel(C, P):
    C.bounds["checker_namespace_access"] = {"namespace_values": "0..2 entries", "exported_syms": "0..2 entries",
                                            "names": "one symbolic character each",
                                            "receiver": "variable naming a namespace / a local / not a variable / unbound / another value",
                                            "item": "a named function, an anonymous function, or an Int"}
    C.assumptions += ["checker kernel: check_expr on the receiver, get_var, the local bindings lookup, fun_info, Type::from_value and the "
                      "definition-position maps are stubs; diagnostics are inspected for severity and position only (message text is not)"]
    from checks import tytemplates as T
    from rsx.interp import Program
    P = Program(T.TYPE_FILES + ["src/values.rs"])
    if P.errors:
        C.inconclusive.append("extractor errors on the checker files: " + "; ".join(P.errors)[:300])
        return
    names = (sym_name("csym"), [sym_name(f"ck{i}") for i in range(2)], [sym_name(f"ce{i}") for i in range(2)])
    k = names[1]
    s_c = names[0][1]
    try:
        res = explore(lambda ctx: run_access(ctx, P, names), max_paths=6000)
    except (Unsupported, UnwindExceeded) as ex:
        C.inconclusive.append(f"infer_namespace_access not encodable: {str(ex)[:300]}")
        return
    C.note_paths(res)
    n_ns = n_other = 0
    rp = lambda m: native_replay()  # noqa: E731
    for i, r in enumerate(res):
        if r.kind == "panic":
            C.prove_deferred(f"checker/path{i}:no-panic", r.pc, False, site="checker/namespace-access/panic",
                             what=f"infer_namespace_access panics: {r.value}", replay=rp, soft=r.tainted)
            continue
        if r.kind != "ok":
            continue
        v = r.value
        C.note_interp(v["I"])
        if v["recv_kind"] != 0:
            n_other += 1
            continue
        n_ns += 1
        tag = f"checker/path{i}/values{v['nv']}/exported{v['ne']}"
        private = z3.And(v["in_vals"], z3.Not(v["in_exp"]))
        public = z3.And(v["in_vals"], v["in_exp"])
        missing = z3.Not(v["in_vals"])
        C.prove_deferred(f"{tag}:private-is-an-error", r.pc, z3.Implies(private, z3.BoolVal(v["n_errors"] >= 1 and v["err_at_sym"])),
                         site="checker/namespace-access/private-not-reported",
                         what="`ns::sym` with sym defined but not exported passes the checker without an Error diagnostic at sym",
                         replay=rp, soft=False, model_desc=lambda m, v=v: {"values": v["nv"], "exported": v["ne"], "errors": v["n_errors"]})
        C.prove_deferred(f"{tag}:public-is-accepted", r.pc, z3.Implies(public, z3.BoolVal(v["n_errors"] == 0 and v["ret_from_value"])),
                         site="checker/namespace-access/public-refused",
                         what="`ns::sym` with sym defined and exported gets an Error diagnostic or no type", replay=rp, soft=False)
        C.prove_deferred(f"{tag}:missing-is-an-error", r.pc, z3.Implies(missing, z3.BoolVal(v["n_errors"] >= 1 and v["ret_is_error"])),
                         site="checker/namespace-access/missing-not-reported",
                         what="`ns::sym` with sym not defined in ns passes the checker without an Error diagnostic", replay=rp, soft=False)
        if v["which"]:
            C.prove_deferred(f"{tag}:type-of-that-item", r.pc, z3.Implies(v["in_vals"], k[v["which"][0]][1] == s_c),
                             site="checker/namespace-access/wrong-item", what="`ns::sym` is typed from another item's value",
                             replay=rp, soft=False)
        if n_ns <= 2:
            C.sample({"kernel": "checker namespace access", "values_entries": v["nv"], "exported_entries": v["ne"],
                      "error_diagnostics": v["n_errors"], "obligation": "pc & defined & !exported => Error diagnostic at sym"})
    C.extra["checker_kernel_paths"] = {"namespace_receiver": n_ns, "other_receivers": n_other}
    C.reach("checker/namespace-paths-exist", [z3.BoolVal(n_ns > 0)])
    C.reach("checker/other-receiver-paths-exist", [z3.BoolVal(n_other > 0)])
    rep = native_replay()
    if rep["reproduced"]:
        C.validation_mismatch(f"`garden check` visibility probes fail on the unchanged tree: {rep['artefact']}")
    else:
        C.validated_against_impl(14)
