"""Models for executing the real lexer symbolically.

* the four `lazy_static!` regexes are compiled by the real regex-automata crate (the extractor's `nfa` command on
  the pattern literal read from lex.rs at run time); `Regex::find` on a symbolic string is the leftmost-first
  anchored match of that byte-level Thompson NFA, simulated by priority-ordered backtracking whose byte tests fork
  through the solver;
* `line_numbers::LinePositions::from / from_offset` is the model "line = number of LF bytes before the offset,
  column = bytes since the last LF".
Symbolic strings are lists of symbolic Unicode scalar values; with `concrete_utf8` the UTF-8 length class of each
character is decided by forking, so byte offsets are concrete integers on every path.
"""
import json
import os
import subprocess
import sys

sys.path.insert(0, os.path.dirname(os.path.dirname(os.path.abspath(__file__))))
import z3  # noqa: E402

from rsx.core import *  # noqa
from rsx import stdmodels  # noqa
from rsx.interp import EXTRACT_BIN, b_or  # noqa

_nfa_cache = {}


def nfa_for(pattern):
    if pattern not in _nfa_cache:
        out = subprocess.run([EXTRACT_BIN, "nfa", pattern], capture_output=True, text=True, check=True)
        j = json.loads(out.stdout)
        if "error" in j:
            raise Unsupported(f"regex-automata rejects {pattern!r}: {j['error']}")
        _nfa_cache[pattern] = j
    return _nfa_cache[pattern]


def utf8_bytes(I, c):
    """Bytes of a char as python ints / z3 BV8 terms (length class decided by forking)."""
    if c.conc:
        return list(chr(c.v).encode("utf-8"))
    k = stdmodels.clen8(I, c)
    z = c.v

    def ext(hi, lo):
        return z3.Extract(hi, lo, z)
    if k == 1:
        return [ext(7, 0)]
    if k == 2:
        return [z3.Concat(z3.BitVecVal(0b110, 3), ext(10, 6)), z3.Concat(z3.BitVecVal(0b10, 2), ext(5, 0))]
    if k == 3:
        return [z3.Concat(z3.BitVecVal(0b1110, 4), ext(15, 12)), z3.Concat(z3.BitVecVal(0b10, 2), ext(11, 6)),
                z3.Concat(z3.BitVecVal(0b10, 2), ext(5, 0))]
    return [z3.Concat(z3.BitVecVal(0b11110, 5), ext(20, 18)), z3.Concat(z3.BitVecVal(0b10, 2), ext(17, 12)),
            z3.Concat(z3.BitVecVal(0b10, 2), ext(11, 6)), z3.Concat(z3.BitVecVal(0b10, 2), ext(5, 0))]


def str_bytes(I, s):
    out = []
    for c in s.chars():
        out.extend(utf8_bytes(I, c))
    return out


def in_range(I, b, lo, hi):
    if isinstance(b, int):
        return lo <= b <= hi
    if lo == hi:
        return I.branch(simp(b == lo))
    return I.branch(simp(z3.And(z3.UGE(b, lo), z3.ULE(b, hi))))


def nfa_match_end(I, nfa, B):
    """Leftmost-first anchored match end of the NFA on byte list B from position 0, or None."""
    states = nfa["states"]
    n = len(B)
    failed = set()     # (state, pos) known to fail on this path (byte facts only grow, so failure is stable)

    def go(st, pos, stack):
        key = (st, pos)
        if key in failed or key in stack:
            return None
        s = states[st]
        t = s["t"]
        res = None
        if t == "match":
            return pos
        if t == "fail":
            res = None
        elif t == "eps":
            res = go(s["next"], pos, stack | {key})
        elif t == "look":
            lk = s["look"]
            okl = (pos == 0) if lk == "Start" else (pos == n) if lk == "End" else None
            if okl is None:
                raise Unsupported(f"regex look-around {lk}")
            res = go(s["next"], pos, stack | {key}) if okl else None
        elif t == "union":
            for alt in s["alts"]:
                res = go(alt, pos, stack | {key})
                if res is not None:
                    break
        elif t == "range":
            if pos < n and in_range(I, B[pos], s["lo"], s["hi"]):
                res = go(s["next"], pos + 1, frozenset())
        elif t == "sparse":
            if pos < n:
                for lo, hi, nx in s["trans"]:
                    if in_range(I, B[pos], lo, hi):
                        res = go(nx, pos + 1, frozenset())
                        break
        elif t == "dense":
            raise Unsupported("dense NFA state")
        else:
            raise Unsupported(f"NFA state kind {t}")
        if res is None:
            failed.add(key)
        return res
    return go(nfa["start_anchored"], 0, frozenset())


def pattern_of(lazy):
    """Pattern literal of `Regex::new(<lit>).unwrap()`."""
    e = lazy.fields["e"]

    def find_lit(node):
        if isinstance(node, dict):
            if node.get("k") == "lit" and node.get("t") == "str":
                return node["v"]
            for v in node.values():
                r = find_lit(v)
                if r is not None:
                    return r
        elif isinstance(node, list):
            for v in node:
                r = find_lit(v)
                if r is not None:
                    return r
        return None
    p = find_lit(e)
    if p is None:
        raise Unsupported("no pattern literal in lazy_static regex")
    return p


def prefix_by_bytes(I, s, nbytes, node):
    """Str of the chars covering the first nbytes bytes (must end on a char boundary)."""
    cs = s.chars()
    tot = 0
    for i, c in enumerate(cs):
        if tot == nbytes:
            return Str(cs[:i]) if not s.conc else Str(s.s[:i])
        tot += stdmodels.clen8(I, c)
    if tot == nbytes:
        return Str(list(cs)) if not s.conc else Str(s.s)
    I.panic("str-slice", node, "regex match end is not a char boundary")


def native_regex_find(I, args, node):
    lazy, s = args[0], I.deref(args[1])
    pat = pattern_of(lazy)
    if not pat.startswith("^"):
        raise Unsupported(f"lexer regex {pat!r} is not anchored with ^")
    nfa = nfa_for(pat)
    stdmodels.used("regex::Regex::find (regex-automata Thompson NFA, leftmost-first)")
    B = str_bytes(I, s)
    end = nfa_match_end(I, nfa, B)
    if end is None:
        return NONE
    text = prefix_by_bytes(I, s, end, node)
    return some(Struct("RegexMatch", {"end": Int(end, 64, False), "text": text}))


def native_match_end(I, args, node):
    return args[0].fields["end"]


def native_match_as_str(I, args, node):
    return args[0].fields["text"]


def native_lp_from(I, args, node):
    stdmodels.used("line_numbers::LinePositions::from/from_offset (LF count, byte column)")
    return Struct("LinePositions", {"src": I.deref(args[0])})


def native_lp_from_offset(I, args, node):
    lp, off = args[0], I.deref(args[1])
    s = lp.fields["src"]
    off = off if isinstance(off, int) else (off.v if off.conc else None)
    if off is None:
        raise Unsupported("LinePositions::from_offset with a symbolic offset")
    line, last_start, tot = 0, 0, 0
    for c in s.chars():
        if tot >= off:
            break
        k = stdmodels.clen8(I, c)
        if I.branch(I.eq_values(c, Char(10))):
            line += 1
            last_start = tot + k
        tot += k
    return (Struct("LineNumber", {"0": Int(line, 64, False)}), Int(off - last_start, 64, False))


def native_ln_as_usize(I, args, node):
    return args[0].fields["0"]


LEX_NATIVES = {
    "LazyStatic::find": native_regex_find,
    "RegexMatch::end": native_match_end,
    "RegexMatch::as_str": native_match_as_str,
    "RegexMatch::start": lambda I, a, n: Int(0, 64, False),
    "LinePositions::from": native_lp_from,
    "LinePositions::from_offset": native_lp_from_offset,
    "LineNumber::as_usize": native_ln_as_usize,
}

LEX_FILES = ["src/parser/lex.rs", "src/parser/position.rs", "src/parser/diagnostics.rs"]


def scalar(c):
    return z3.And(z3.ULE(c, 0x10FFFF), z3.Not(z3.And(z3.UGE(c, 0xD800), z3.ULE(c, 0xDFFF))))


def model_string(m, chars):
    return "".join(chr(m.eval(c, model_completion=True).as_long()) for c in chars)


def run_lexer(P, ctx, chars, loop_bound=24):
    """Execute the real `lex` on the symbolic string; returns (I, src, result)."""
    from rsx.interp import Interp
    for c in chars:
        ctx.assume(scalar(c))
    I = Interp(P, ctx, natives=dict(LEX_NATIVES), loop_bound=loop_bound,
               opaque_fns=[])
    I.concrete_utf8 = True
    src = Str([Char(c) for c in chars]) if chars else Str("")
    vfs_path = Struct("VfsPathBuf", {"path": Rc(Opaque("path")), "id": Opaque("vfsid")}, partial=True)
    res = I.call_user(P.fns["lex"], [vfs_path, src])
    return I, src, res
