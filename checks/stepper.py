"""Step driver shared by C02 / C07 / C09 / C24.

`Templates` builds an `Expression` of a given kind from the real AST type
definitions (sub-expressions are tokens, blocks hold 0..1 tokens, operators /
destinations / options are forked).  `StepRun.drive` then plays the real
`eval_expr` dispatcher on it: the NotEvaluated arm queues sub-expressions, each
token "evaluates" to a fresh symbolic `Value` (or a seeded one, e.g. a
built-in function value), and the expression's later arms run on the operand
stack *the dispatcher itself produced*.  Every failing step is followed by the
real `restore_stack_frame` and executed a second time (free decisions
replayed) so its error can be compared with the first.
"""
import os
import re
import sys

sys.path.insert(0, os.path.dirname(os.path.dirname(os.path.abspath(__file__))))
import z3  # noqa: E402

from rsx.core import *  # noqa
from vlib import machine as M  # noqa
from checks import builtins as B  # noqa

_n = [0]


def fresh(prefix):
    _n[0] += 1
    return f"{prefix}{_n[0]}"


def sub_token(label, used=True):
    return Rc(Struct("Expression", {"expr_": Enum("Expression_", "Invalid", []), "position": Opaque(f"{label}.pos"),
                                    "value_is_used": used, "id": Opaque(f"{label}.id"), "__sub": label}, partial=True))


def mk_symbol(k, name=None):
    return Struct("Symbol", {"position": Opaque(f"sym{k}.pos"), "name": Struct("SymbolName", {"text": Str(name or f"x{k}")}),
                             "id": Opaque(f"sym{k}.id"), "interned_id": Int(100 + k, 64, False)})


class Templates:
    """Type-directed construction of AST node templates (forks through ctx)."""

    def __init__(self, P, ctx, max_args=2, max_cases=1):
        self.P, self.ctx, self.max_args, self.max_cases = P, ctx, max_args, max_cases
        self.k = 0
        self.subs = []

    def sub(self, label, used=True):
        t = sub_token(f"{label}#{len(self.subs)}", used)
        self.subs.append(t)
        return t

    def of_type(self, tyj, label):
        P, ctx = self.P, self.ctx
        k = tyj["k"]
        if k == "tuple":
            return tuple(self.of_type(t, f"{label}.{i}") for i, t in enumerate(tyj["elems"]))
        if k != "path":
            return Opaque(label)
        last = tyj["segs"][-1]
        args = tyj.get("args", [])
        if last == "Rc" and args and args[0]["s"].replace(" ", "") == "Expression":
            return self.sub(label)
        if last == "Box" and args:
            return self.of_type(args[0], label)
        if last == "Option" and args:
            if ctx.choose([True, True]) == 0:
                return NONE
            return some(self.of_type(args[0], label + ".some"))
        if last == "Vec" and args:
            inner = args[0]["s"].replace(" ", "")
            lo, hi = 0, (self.max_args if inner in ("ExpressionWithComma",) else 2)
            if args[0]["k"] == "tuple":
                lo, hi = 1, self.max_cases   # match cases / struct fields: each is a tree of forks
            n = lo + ctx.choose([True] * (hi - lo + 1))
            return Vec([self.of_type(args[0], f"{label}[{i}]") for i in range(n)])
        if last == "Block":
            n = ctx.choose([True, True])
            return Struct("Block", {"open_brace": Opaque("ob"), "close_brace": Opaque("cb"),
                                    "exprs": Vec([self.sub(f"{label}.blk", used=None) for _ in range(n)])})
        if last == "Symbol":
            self.k += 1
            return mk_symbol(self.k)
        if last in ("SymbolName", "TypeName"):
            self.k += 1
            return Struct(last, {"text": Str(f"n{self.k}")})
        if last == "String":
            return Str("s")
        if last == "i64":
            return Int(z3.BitVec(fresh("lit_i"), 64))
        if last == "OrderedFloat":
            return Struct("OrderedFloat", {"0": Float(z3.FP(fresh("lit_f"), z3.Float64()))})
        if last == "bool":
            return z3.Bool(fresh("flag"))
        if last in ("Position", "SyntaxId", "FunInfo", "TypeHint", "InternedSymbolId", "PathBuf"):
            return Opaque(label)
        if last in P.structs:
            sd = P.structs[last]["fields"]
            if sd["kind"] == "named":
                return Struct(last, {n: self.of_type(t, f"{label}.{n}") for n, t in zip(sd["names"], sd["types"])})
            if sd["kind"] == "tuple":
                return Struct(last, {str(i): self.of_type(t, f"{label}.{i}") for i, t in enumerate(sd["types"])})
            return Struct(last, {})
        if last in P.enums:
            vs = P.enums[last]["variants"]
            i = ctx.choose([True] * len(vs))
            v = vs[i]
            f = v["fields"]
            if f["kind"] == "unit":
                return Enum(last, v["name"], [])
            if f["kind"] == "tuple":
                return Enum(last, v["name"], [self.of_type(t, f"{label}.{v['name']}.{j}") for j, t in enumerate(f["types"])])
            return Enum(last, v["name"], {n: self.of_type(t, f"{label}.{n}") for n, t in zip(f["names"], f["types"])})
        return Opaque(label)

    def expression(self, kind, fixed_fields=None):
        v = self.P.variant("Expression_", kind)
        f = v["fields"]
        if fixed_fields is not None:
            fields = fixed_fields
        elif kind == "Assert" and self.ctx.choose([True, True]) == 1:
            # assert(lhs OP rhs): the dispatcher evaluates the two operands itself, keeps copies for the failure message,
            # and then runs the comparison expression on the duplicates
            cmp_kind = ["Equal", "LessThan"][self.ctx.choose([True, True])]
            inner = Rc(Struct("Expression", {
                "expr_": Enum("Expression_", "BinaryOperator", [self.sub("Assert.lhs"),
                                                                Struct("BinaryOperator", {"kind": Enum("BinaryOperatorKind", cmp_kind, []),
                                                                                          "position": Opaque("op.pos")}),
                                                                self.sub("Assert.rhs")]),
                "position": Opaque("Assert.0.pos"), "value_is_used": True, "id": Opaque("Assert.0.id"),
                "__binop_inner": cmp_kind}, partial=True))
            fields = [inner]
        elif f["kind"] == "unit":
            fields = []
        else:
            fields = [self.of_type(t, f"{kind}.{j}") for j, t in enumerate(f["types"])]
        return Rc(Struct("Expression", {"expr_": Enum("Expression_", kind, fields), "position": Opaque("outer.pos"),
                                        "value_is_used": z3.Bool("outer_used"), "id": Opaque("outer.id"),
                                        "__outer": kind}, partial=True))

    def paren_args(self, n):
        return Struct("ParenthesizedArguments", {
            "open_paren": Opaque("op"), "close_paren": Opaque("cp"),
            "arguments": Vec([Struct("ExpressionWithComma", {"expr": self.sub(f"arg{i}"), "comma": NONE})
                              for i in range(n)])})


def state_key(stv):
    if stv.variant == "PartiallyEvaluated":
        return ("PartiallyEvaluated", stv.fields[0].variant)
    return (stv.variant, None)


def err_sig(I, r):
    """A comparable summary of an Err(..) returned by a step."""
    e = r.fields[0]
    if isinstance(e, tuple):
        e = e[1]
    if isinstance(e, Enum):
        parts = [e.variant]
        for f in (e.fields if isinstance(e.fields, list) else e.fields.values()):
            f = I.deref(f)
            if isinstance(f, Struct):
                parts.append("{" + ";".join(f"{k}={I.arg_sig(v)}" for k, v in f.fields.items()) + "}")
            else:
                parts.append(I.arg_sig(f))
        return "|".join(parts)
    return I.arg_sig(e)


METHOD_RECV_VARIANT = {"Dict": "Dict", "Float": "Float", "Int": "Int", "List": "List", "Path": "Struct", "String": "String"}


class StepRun:
    def __init__(self, P, ctx, sandbox=False, profile="dev", extra_env=None, extra_opaque=()):
        self.P, self.ctx = P, ctx
        self.I = M.mk_interp(P, ctx, profile=profile, opaque=M.OPAQUE_FNS + ["is_subtype", "check_type"] + list(extra_opaque))
        self.sentinel = M.mk_value(Opaque("below"))
        self.frame = M.mk_frame(values=[self.sentinel], exprs=[], nblocks=2,
                                extra={"enclosing_name": Opaque("enclosing"), "namespace": Opaque("ns")})
        env_extra = {"enforce_sandbox": sandbox, "ticks": Int(0, 64, False)}
        if extra_env:
            env_extra.update(extra_env)
        self.env = M.mk_env([self.frame], extra=env_extra)
        self.session = Struct("Session", {}, partial=True)
        self.token_values = {}   # token label -> (Value, SymEnum node or None)
        self.seeded = {}         # token label -> Value to push instead of a fresh symbolic one
        self.constrain = {}      # token label -> callable(node, tag) adding assumptions
        self.block_ops = []
        self.I.on_call = lambda name, args: self.block_ops.append(name) if name in (
            "Bindings::push_block", "Bindings::pop_block") else None

    def stack_idents(self):
        return B.idents(self.frame.fields["evalled_values"].items)

    def entries(self):
        return self.frame.fields["exprs_to_eval"].items

    def push_value(self, label):
        if label in self.seeded:
            v = self.seeded[label]
            self.token_values[label] = (v, None)
        else:
            v, node, tag, nv = B.sym_value(self.P, fresh("val"))
            self.ctx.add(z3.And(tag >= 0, tag < nv))   # range of a fresh variable: cannot make the path infeasible
            if label in self.constrain:
                self.constrain[label](node, tag)
            self.token_values[label] = (v, node)
        self.frame.fields["evalled_values"].items.append(v)
        return v

    def step(self, stv, ex):
        st = [stv]
        sref = Ref(lambda: st[0], lambda v: st.__setitem__(0, v))
        self.I.err_origin = None
        r = self.I.call_user(self.P.fns["eval_expr"], [self.env, self.session, ex, sref])
        return r, st[0]

    def drive(self, expr, max_outer_steps=6, resume_check=True):
        """Play the dispatcher on `expr` until it completes, errors, calls into a new frame or hits the bound."""
        I, ctx = self.I, self.ctx
        entries = self.entries()
        entries.append((Enum("ExpressionState", "NotEvaluated", []), expr))
        outer_steps = 0
        rec = {"outcome": "done", "steps": []}
        while entries:
            stv, ex = entries.pop()
            exs = ex.inner
            if "__sub" in exs.fields:
                used = exs.fields["value_is_used"]
                if used is None:
                    # block body expression: whether its value is used is decided statically by the parser (loop
                    # bodies never, branches only when the parent's value is used); the driver leaves it unused, so
                    # block results are not on the operand stack of any step examined here
                    used = False
                if used:
                    self.push_value(exs.fields["__sub"])
                continue
            if "__binop_inner" in exs.fields:
                vals = self.frame.fields["evalled_values"].items
                if len(vals) < 2:
                    raise Unsupported("comparison inside assert finds fewer than two operands")
                vals.pop()
                vals.pop()
                self.push_value("Assert.0")
                continue
            if ex is not expr:
                raise Unsupported("driver met an unknown pending entry")
            outer_steps += 1
            if outer_steps > max_outer_steps:
                rec["outcome"] = "bound"
                entries.append((stv, ex))
                break
            before = self.stack_idents()
            nblocks_before = len(self.frame.fields["bindings"].fields["block_bindings"].items)
            nentries_before = len(entries)
            ops_before = len(self.block_ops)
            stdcalls_before = len(I.std_calls)
            ctx.record_free = []
            srec = {"state": state_key(stv), "before": before}
            rec["steps"].append(srec)
            try:
                r, st_after = self.step(stv, ex)
            finally:
                srec["std_calls"] = I.std_calls[stdcalls_before:]
                srec["block_ops"] = self.block_ops[ops_before:]
                tape = ctx.record_free
                ctx.record_free = None
            srec["r"] = r
            srec["state_after"] = state_key(st_after)
            if M.result_kind(r) == "Err":
                rv = r.fields[0][0]
                srec["err"] = err_sig(I, r)
                srec["err_origin"] = I.err_origin
                srec["restore_values"] = B.idents(rv.fields["0"].items)
                srec["after_step"] = self.stack_idents()
                I.call_user(self.P.fns["restore_stack_frame"], [self.env, (st_after, ex), rv.fields["0"]])
                srec["after_restore"] = self.stack_idents()
                srec["stale_entries"] = len(entries) - 1 - nentries_before
                srec["blocks_delta"] = len(self.frame.fields["bindings"].fields["block_bindings"].items) - nblocks_before
                # --- resume: the same step again, free decisions replayed in order.  Only when the operands
                # were put back exactly; otherwise the mismatch itself is the finding and the resumed step would
                # explore an unrelated state.
                stv2, ex2 = entries.pop()
                srec["resumed_same_entry"] = ex2 is ex
                if not resume_check:
                    entries.append((stv2, ex2))
                    srec["resume_kind"] = "not-run"
                    rec["outcome"] = "error"
                    break
                if srec["after_restore"] != before:
                    srec["resume_kind"] = "skipped"
                    rec["outcome"] = "error"
                    break
                ctx.force_free = list(tape)
                try:
                    r2, st2 = self.step(stv2, ex2)
                    srec["resume_kind"] = M.result_kind(r2)
                    if M.result_kind(r2) == "Err":
                        srec["err2"] = err_sig(I, r2)
                        I.call_user(self.P.fns["restore_stack_frame"], [self.env, (st2, ex2), r2.fields[0][0].fields["0"]])
                        srec["after_restore2"] = self.stack_idents()
                except Panic as p:
                    srec["resume_kind"] = "panic"
                    srec["resume_panic"] = str(p)
                except Unsupported as u:
                    srec["resume_kind"] = "unsupported"
                    srec["resume_panic"] = str(u)
                finally:
                    ctx.force_free = None
                rec["outcome"] = "error"
                break
            if isinstance(r, Enum) and r.variant == "Ok":
                inner = r.fields[0] if r.fields else NONE
                if isinstance(inner, Enum) and inner.variant == "Some":
                    rec["outcome"] = "new-frame"
                    break
        rec["final_stack"] = self.stack_idents()
        rec["final_blocks"] = len(self.frame.fields["bindings"].fields["block_bindings"].items)
        return rec

    def finish(self, rec):
        rec["known_tags"] = dict(self.ctx.known_tags)
        rec["token_values"] = self.token_values
        rec["I"] = self.I
        rec["std_calls"] = list(self.I.std_calls)
        return rec


# ------------------------------------------------------------------ jobs

def jobs(P, max_args=2):
    """All (label, runner) pairs: runner(ctx, sandbox, profile) -> record."""
    out = []
    for kind in P.variant_names("Expression_"):
        if kind in ("Call", "MethodCall"):
            continue
        out.append((f"expr:{kind}", ("expr", kind, None)))
    for bk in P.variant_names("BuiltInFunctionKind"):
        for n in range(0, max_args + 1):
            out.append((f"fun:{bk}/{n}", ("fun", bk, n)))
    for mk in P.variant_names("BuiltInMethodKind"):
        for n in range(0, max_args + 1):
            out.append((f"method:{mk}/{n}", ("method", mk, n)))
    for n in range(0, max_args + 1):
        out.append((f"call-other/{n}", ("other", None, n)))
    for shape in ("Fun", "Closure"):
        for n in range(0, max_args + 1):
            out.append((f"userfun:{shape}/{n}", ("userfun", shape, n)))
    return out


def run_job(P, ctx, job, sandbox=False, profile="dev", max_args=2, extra_opaque=(), toplevel=False, resume_check=True):
    mode, kind, n = job
    _n[0] = 0     # symbol names are a function of the path, so a re-execution of the path meets the same names
    T = Templates(P, ctx, max_args=max_args)
    extra_env = {}
    S = None
    if mode == "expr":
        S = StepRun(P, ctx, sandbox=sandbox, profile=profile, extra_opaque=extra_opaque)
        expr = T.expression(kind)
    elif mode in ("fun", "other"):
        S = StepRun(P, ctx, sandbox=sandbox, profile=profile, extra_opaque=extra_opaque)
        recv_tok = T.sub("recv")
        expr = T.expression("Call", [recv_tok, T.paren_args(n)])
        lab = recv_tok.inner.fields["__sub"]
        if mode == "fun":
            S.seeded[lab] = M.mk_value(Enum("Value_", "BuiltInFunction", [Enum("BuiltInFunctionKind", kind, []), NONE, NONE]))
        else:
            def not_builtin(node, tag, ctx=ctx):
                if "BuiltInFunction" in node.variants:   # built-in receivers are the "fun" jobs
                    ctx.assume(tag != node.variants.index("BuiltInFunction"))
            S.constrain[lab] = not_builtin
    elif mode == "userfun":
        S = StepRun(P, ctx, sandbox=sandbox, profile=profile, extra_opaque=extra_opaque)
        recv_tok = T.sub("recv")
        expr = T.expression("Call", [recv_tok, T.paren_args(n)])
        lab = recv_tok.inner.fields["__sub"]
        m = ctx.choose([True] * (max_args + 1))     # declared parameter count, independent of the argument count
        params = []
        for i in range(m):
            has_hint = ctx.choose([True, True])
            params.append(Struct("SymbolWithHint", {"symbol": mk_symbol(50 + i, f"p{i}"),
                                                    "hint": some(Opaque(f"hint{i}")) if has_hint else NONE}))
        fun_info = Struct("FunInfo", {
            "pos": Opaque("fpos"), "doc_comment": NONE, "name_sym": some(mk_symbol(40, "uf")), "item_id": NONE,
            "type_params": Vec([]),
            "params": Struct("ParenthesizedParameters", {"open_paren": Opaque("op"), "params": Vec(params), "close_paren": Opaque("cp")}),
            "return_hint": NONE,
            "body": Struct("Block", {"open_brace": Opaque("ob"), "close_brace": Opaque("cb"), "exprs": Vec([T.sub("body", used=None)])})})
        if kind == "Fun":
            S.seeded[lab] = M.mk_value(Enum("Value_", "Fun", {"name_sym": mk_symbol(40, "uf"), "fun_info": fun_info,
                                                              "runtime_type": Opaque("frt")}))
        else:
            S.seeded[lab] = M.mk_value(Enum("Value_", "Closure", [Vec([]), fun_info, Opaque("crt")]))
        S.userfun_params = [(p.fields["hint"].variant == "Some") for p in params]
    elif mode == "method":
        minfo = Struct("MethodInfo", {"kind": Enum("MethodKind", "BuiltinMethod", [Enum("BuiltInMethodKind", kind, []), NONE]),
                                      "receiver_sym": Opaque("rsym"), "name_sym": Opaque("nsym")}, partial=True)
        tdm = Struct("TypeDefAndMethods", {"methods": Map([(Struct("SymbolName", {"text": Str("m")}), minfo)]),
                                           "def": Opaque("typedef")}, partial=True)
        S = StepRun(P, ctx, sandbox=sandbox, profile=profile, extra_env={"types": Map([(Opaque("recv-type-name"), tdm)])},
                    extra_opaque=extra_opaque)
        recv_tok = T.sub("recv")
        msym = Struct("Symbol", {"name": Struct("SymbolName", {"text": Str("m")}), "position": Opaque("mpos"),
                                 "id": Opaque("mid"), "interned_id": Opaque("miid")})
        expr = T.expression("MethodCall", [recv_tok, msym, T.paren_args(n)])
        lab = recv_tok.inner.fields["__sub"]
        want = None
        for pre, var in METHOD_RECV_VARIANT.items():
            if kind.startswith(pre):
                want = var

        def recv_is(node, tag, ctx=ctx, want=want):
            # the method table is keyed by the receiver's type name: a built-in method only ever sees a receiver of
            # the type it is declared on (stated assumption)
            if want is not None and want in node.variants:
                ctx.assume(tag == node.variants.index(want))
                ctx.known_tags[node.id] = want
        S.constrain[lab] = recv_is
    ctx._last_expr = expr
    ctx._last_token_values = S.token_values
    ctx._last_userfun_params = getattr(S, "userfun_params", None)
    if toplevel:
        # a top-level session frame: a single bindings block
        del S.frame.fields["bindings"].fields["block_bindings"].items[1:]
    rec = S.drive(expr, resume_check=resume_check)
    rec = S.finish(rec)
    rec.update({"job": job, "expr": expr, "S": S})
    return rec


# --------------------------------------------------------------- replay text

LITERALS = {"Int": "1", "Float": "1.5", "String": '"s"', "List": "[1, 2]", "Tuple": "(1, 2)", "Dict": 'Dict["k" => 1]',
            "EnumVariant": "True", "Fun": "string_repr", "Closure": "fun() { 1 }", "BuiltInFunction": "println",
            "EnumConstructor": "Some", "Struct": 'Path{ p: "/var/tmp/verif-scratch-none/sub/p" }', "Namespace": "1", None: None}
BINOPS = {"Add": "+", "Subtract": "-", "Multiply": "*", "Divide": "/", "Modulo": "%", "Exponent": "**", "BitwiseAnd": "&",
          "BitwiseOr": "|", "LessThan": "<", "LessThanOrEqual": "<=", "GreaterThan": ">", "GreaterThanOrEqual": ">=",
          "AddFloat": "+.", "SubtractFloat": "-.", "MultiplyFloat": "*.", "DivideFloat": "/.", "Equal": "==",
          "NotEqual": "!=", "And": "&&", "Or": "||", "StringConcat": "^"}


def lit_for(kind, i, variant=0):
    """Distinct literal per operand position so swapped operands are observable; variant 1 = the empty/zero form."""
    if kind == "Int":
        return str(10 + i) if variant == 0 else "0"
    if kind == "Float":
        return f"{i + 1}.5" if variant == 0 else "0.0"
    if kind == "String":
        return f'"s{i}"' if variant == 0 else '""'
    if kind == "List":
        return f"[{i + 1}, {i + 2}]" if variant == 0 else "[]"
    if kind == "Tuple":
        return f"({i + 1}, {i + 2})"
    if kind == "Dict":
        return f'Dict["k{i}" => {i}]' if variant == 0 else "Dict[]"
    if kind == "EnumVariant":
        return ["True", "False", "None", "Some(3)"][(i + variant) % 4]
    if kind == "Struct" and variant == 2:
        return "VerifOther{ a: 1 }"          # a struct that is not the one the built-in expects (prelude added by the caller)
    return LITERALS.get(kind)


def tok_literal(rec, prefix, default):
    """Garden literal for the value the path pushed for the token whose label starts with `prefix`."""
    for i, (lab, (v, node)) in enumerate(rec["token_values"].items()):
        if lab.startswith(prefix):
            if node is None:
                return None
            k = rec["known_tags"].get(node.id)
            m = rec.get("model")
            if k is None and m is not None:
                # the path only excluded variants: take the one the solver's model picked
                try:
                    idx = m.eval(node.tag, model_completion=True).as_long()
                    if 0 <= idx < len(node.variants):
                        k = node.variants[idx]
                except Exception:
                    pass
            ov = rec.get("kind_override", {})
            if k is None or (lab in ov and rec["known_tags"].get(node.id) is None):
                k = ov.get(lab, k)
            variant = rec.get("lit_variant", {}).get(lab, 0)
            if k == "Int" and m is not None and not rec.get("no_model_ints"):
                # the path may need a particular integer (an extreme one): take the model's value
                try:
                    iv = m.eval(z3.BitVec(f"{node.label}_int", 64), model_completion=True).as_long()
                    iv = iv - (1 << 64) if iv >> 63 else iv
                    if iv >= 0:
                        return str(iv)
                    return "((0 - 9223372036854775807) - 1)" if iv == -(1 << 63) else f"(0 - {-iv})"
                except Exception:
                    pass
            return lit_for(k, i, variant) or (str(10 + i) if default == "1" else default)
    return default


def snippet(P, rec, names, ns_paths):
    """(prelude, text) Garden source reproducing this path's step, or None."""
    mode, kind, n = rec["job"]
    e_ = rec["expr"].inner.fields["expr_"]
    f = e_.fields
    if mode == "fun":
        args = ", ".join(tok_literal(rec, f"arg{i}#", "1") for i in range(n))
        name = names.get(kind)
        if name is None:
            return None
        ns = ns_paths.get(kind, "__prelude.gdn")
        if ns == "__prelude.gdn":
            return "", f"{name}({args})"
        return f'import "{ns}" as vns', f"vns::{name}({args})"
    if mode == "method":
        args = ", ".join(tok_literal(rec, f"arg{i}#", "1") for i in range(n))
        for ty, var in METHOD_RECV_VARIANT.items():
            if kind.startswith(ty):
                mname = re.sub(r"(?<!^)(?=[A-Z])", "_", kind[len(ty):]).lower()
                recv = {"Dict": 'Dict["k" => 1]', "Float": "1.5", "Int": "1", "List": "[1, 2]",
                        "Path": 'Path{ p: "/var/tmp/verif-scratch-none/sub/p" }', "String": '"abc"'}[ty]
                return "", f"{recv}.{mname}({args})"
        return None
    if mode == "userfun":
        hints = getattr(rec.get("S"), "userfun_params", None) or rec.get("userfun_params") or []
        args = ", ".join(tok_literal(rec, f"arg{i}#", "1") for i in range(n))
        hint_ty = rec.get("hint_type", "String")
        ps = ", ".join(f"p{i}" + (f": {hint_ty}" if h else "") for i, h in enumerate(hints))
        if kind == "Fun":
            return f"fun uf({ps}) {{ 1 }}", f"uf({args})"
        return f"let uf = fun({ps}) {{ 1 }}", f"uf({args})"
    if mode == "other":
        args = ", ".join(tok_literal(rec, f"arg{i}#", "1") for i in range(n))
        recv = tok_literal(rec, "recv#", "1")
        return f"let vf = {recv}", f"vf({args})"
    k = kind
    if k == "BinaryOperator":
        op = BINOPS.get(f[1].fields["kind"].variant)
        if op is None:
            return None
        return "", f"{tok_literal(rec, 'BinaryOperator.0', '1')} {op} {tok_literal(rec, 'BinaryOperator.2', '1')}"
    if k == "If":
        return "", f"if {tok_literal(rec, 'If.0', '1')} {{ }}" + (" else { }" if f[2].variant == "Some" else "")
    if k == "While":
        return "", f"while {tok_literal(rec, 'While.0', '1')} {{ }}"
    if k == "ForIn":
        dest = "x" if f[0].variant == "Symbol" else "(a, b)"
        return "", f"for {dest} in {tok_literal(rec, 'ForIn.1', '1')} {{ }}"
    if k == "Let":
        dest = "x" if f[0].variant == "Symbol" else "(a, b)"
        hint = f": {rec.get('hint_type', 'String')}" if f[1].variant == "Some" else ""
        return "", f"let {dest}{hint} = {tok_literal(rec, 'Let.2', '1')}"
    if k == "Assign":
        return "", f"nosuchvar = {tok_literal(rec, 'Assign.1', '1')}"
    if k == "AssignUpdate":
        op = "+=" if f[1].variant == "Add" else "-="
        return 'let uv = "s"', f"uv {op} {tok_literal(rec, 'AssignUpdate.2', '1')}"
    if k == "Assert":
        inner = f[0].inner if isinstance(f[0], Rc) else f[0]
        if isinstance(inner, Struct) and "__binop_inner" in inner.fields:
            op = BINOPS[inner.fields["__binop_inner"]]
            lhs, rhs = tok_literal(rec, 'Assert.lhs', '1'), tok_literal(rec, 'Assert.rhs', '2')
            if lhs is None or rhs is None:
                return None
            if lhs == rhs and op == "==":
                rhs = "99"         # the failing-assertion path needs operands that differ
            return "", f"assert({lhs} {op} {rhs})"
        return "", f"assert({tok_literal(rec, 'Assert.0', '1')})"
    if k == "DotAccess":
        return "", f"{tok_literal(rec, 'DotAccess.0', '1')}.nosuchfield"
    if k == "NamespaceAccess":
        return "", f"{tok_literal(rec, 'NamespaceAccess.0', '1')}::nosuchname"
    if k == "DictLiteral":
        items = f[0].items if isinstance(f[0], Vec) else []
        if len(items) <= 1:
            return "", f"Dict[{tok_literal(rec, 'DictLiteral.0', '1')} => 1]"
        pairs = []
        for i in range(len(items)):
            kl = tok_literal(rec, f"DictLiteral.0[{i}].key", f'"k{i}"')
            vl = tok_literal(rec, f"DictLiteral.0[{i}].value", "1")
            if kl is None or vl is None:
                return None
            pairs.append(f"{kl} => {vl}")
        return "", "Dict[" + ", ".join(pairs) + "]"
    if k == "Match":
        return "", f"match {tok_literal(rec, 'Match.0', '1')} {{ Some(_) => {{ }} }}"
    if k == "StructLiteral":
        v = tok_literal(rec, 'StructLiteral.1', '1')
        form = rec.get("struct_form", 0)
        if form == 1:      # a field the struct does not have
            return "struct VerifSt { a: Int }", f"VerifSt{{ b: {v} }}"
        if form == 2:      # a known field, then an unknown one (values of earlier fields already consumed)
            return "struct VerifSt { a: Int }", f"VerifSt{{ a: 1, b: {v} }}"
        if form == 3:      # wrong field type
            return "struct VerifSt { a: Int }", f'VerifSt{{ a: "s" }}'
        if form == 4:      # missing field
            return "struct VerifSt { a: Int, c: Int }", f"VerifSt{{ a: {v} }}"
        if form == 5:      # not a struct type
            return "", f"Int{{ a: {v} }}"
        return "", f"NoSuchStruct{{ a: {v} }}"
    if k == "Variable":
        return "", "nosuchvariable"
    if k == "Invalid":
        return None
    return None


# ------------------------------------------------------------------ walking

def walk_all(C, P, sandbox=False, profile="dev", max_args=2, max_paths=8000, only=None, extra_opaque=()):
    """Explore every job; returns [(label, job, PathResult)].  Jobs the encoder cannot handle are listed in
    C.extra['jobs_not_encodable'] and compared with the committed expectation by the caller."""
    out = []
    not_enc = {}
    for label, job in jobs(P, max_args=max_args):
        if only and not any(label.startswith(o) for o in only):
            continue
        try:
            res = explore(lambda ctx: run_job(P, ctx, job, sandbox=sandbox, profile=profile, max_args=max_args,
                                              extra_opaque=extra_opaque), max_paths=max_paths)
        except (Unsupported, UnwindExceeded) as ex:
            not_enc[label] = str(ex)[:160]
            continue
        C.note_paths(res)
        for r in res:
            if r.kind == "ok":
                C.note_interp(r.value["I"])
            out.append((label, job, r))
    C.extra["jobs_total"] = len(jobs(P, max_args=max_args))
    C.extra["jobs_not_encodable"] = not_enc
    return out


def return_ordinal(P, origin):
    """(fn, line) of a `return Err` -> 'fn#k' with k the ordinal of that return among the fn's returns (robust to
    line shifts)."""
    if not origin:
        return "unknown-origin"
    fn_name, line = origin
    fn = P.fns.get(fn_name)
    if fn is None and "::" in fn_name:
        ty, n = fn_name.split("::", 1)
        fn = P.methods.get((ty, n))
    if fn is None:
        return f"{fn_name}@{line}"
    lines = []

    def scan(node):
        if isinstance(node, dict):
            if node.get("k") == "return":
                lines.append(node.get("line"))
            for v in node.values():
                scan(v)
        elif isinstance(node, list):
            for v in node:
                scan(v)
    scan(fn["body"])
    lines = sorted(set(lines))
    k = lines.index(line) if line in lines else -1
    return f"{fn_name}#{k}"


def job_family(label):
    """'fun:PreludePrint/1' -> 'fun:PreludePrint' (arity-independent site key)."""
    return label.split("/")[0]


EXPECTED_NOT_ENCODABLE_FILE = os.path.join(os.path.dirname(os.path.dirname(os.path.abspath(__file__))), "checks",
                                           "expected_not_encodable.json")


def check_not_encodable(C, key):
    """Jobs that cannot be encoded are outside the claim; a job that becomes unencodable on a changed tree makes the
    run inconclusive instead of silently shrinking the claim."""
    import json
    exp = {}
    if os.path.exists(EXPECTED_NOT_ENCODABLE_FILE):
        exp = json.load(open(EXPECTED_NOT_ENCODABLE_FILE))
    allowed = set(exp.get(key, []))
    for label, why in C.extra.get("jobs_not_encodable", {}).items():
        if label not in allowed:
            C.inconclusive.append(f"step {label} is not encodable on the current source ({why}); it is not in the "
                                  f"committed list of steps outside the claim")


def snippet_alternatives(P, rec, names, ns_paths, limit=10):
    """All Garden renderings of this path's step worth trying natively: operand kinds the path left open are
    tried as the solver's pick and as String / List / Int; aggregate operands also in their empty form."""
    out = []
    base_variants = [{}]
    if rec["job"][0] == "userfun" or (rec["job"][0] == "expr" and rec["job"][1] == "Let"):
        base_variants = [{"hint_type": "String"}, {"hint_type": "NoSuchTypeVerif"}]
    if rec["job"][0] == "expr" and rec["job"][1] == "StructLiteral":
        base_variants = [{"struct_form": i} for i in range(6)]
    open_labs = [lab for lab, (v, node) in rec["token_values"].items()
                 if node is not None and rec["known_tags"].get(node.id) is None]
    agg_labs = [lab for lab, (v, node) in rec["token_values"].items()
                if node is not None and rec["known_tags"].get(node.id) in ("List", "String", "Dict")]
    combos = [({}, {})]
    for lab in open_labs[:2]:
        combos += [({lab: k}, {}) for k in ("String", "List", "Float")]
    for lab in agg_labs[:2]:
        combos += [({}, {lab: 1})]
    struct_labs = [lab for lab, (v, node) in rec["token_values"].items()
                   if node is not None and rec["known_tags"].get(node.id) == "Struct"]
    for lab in struct_labs[:2]:
        combos += [({}, {lab: 2})]
    for bv in base_variants:
        for no_model_ints in (False, True):
            for ko, lv in combos:
                rec.update(bv)
                rec["kind_override"], rec["lit_variant"], rec["no_model_ints"] = ko, lv, no_model_ints
                sn = snippet(P, rec, names, ns_paths)
                if sn is not None and "VerifOther{" in sn[1]:
                    sn = ((sn[0] + "\n" if sn[0] else "") + "struct VerifOther { a: Int }", sn[1])
                if sn is not None and sn not in out:
                    out.append(sn)
                if len(out) >= limit:
                    break
    for k in ("hint_type", "kind_override", "lit_variant", "no_model_ints", "struct_form"):
        rec.pop(k, None)
    if rec["job"][0] == "other":
        # a receiver that is an enum constructor may be *stale*: its enum was redefined with fewer variants after the
        # constructor was bound (definitions load first, old variant names stay bound)
        node = (rec["token_values"].get("recv#") or (None, None))[1]
        kinds = {rec["known_tags"].get(getattr(node, "id", None))} | set(rec.get("kind_override", {}).values())
        n = rec["job"][2]
        args = ", ".join(str(10 + i) for i in range(n))
        if node is None or kinds & {"EnumConstructor", None}:
            out.append(("enum VerifStale { VsA, VsB, VsC(Int) }\nenum VerifStale { VsA }", f"VsC({args})"))
    return out
