"""Type templates and merged (summary-based) execution of the real `is_subtype` for C14 / C15.

A template node is a `Type` whose variant tag, name, arity and children are
symbolic up to a depth bound.  `is_subtype(x, y)` on two template nodes is
executed by enumerating the paths of ONE invocation of the real function body
(recursive calls on child templates are replaced by the children's own
summaries) and merging the outcomes into a single z3 Bool: a total function of
the symbolic tags/names/arities, valid under any outer path condition.
"""
import os
import sys

sys.path.insert(0, os.path.dirname(os.path.dirname(os.path.abspath(__file__))))
import z3  # noqa: E402

from rsx.core import *  # noqa
from rsx.interp import Program, Interp  # noqa

TYPE_FILES = ["src/garden_type.rs", "src/parser/ast.rs", "src/checks/type_checker.rs", "src/parser/position.rs"]
NAMES = ["NoValue", "Int", "String", "List", "Option", "Result"]
ARITY = {"NoValue": 0, "Int": 0, "String": 0, "List": 1, "Option": 1, "Result": 2}
TPARAMS = ["T", "U"]
MAX_ARITY = 2


class TypeSpace:
    def __init__(self, P, depth):
        self.P = P
        self.depth = depth
        self.variants = P.variant_names("Type")
        self.summaries = {}     # (la, lb) -> z3 Bool
        self.summary_paths = 0
        self.panics = []        # (label pair, pc, Panic)
        self.wf_cache = {}

    # ---- symbolic variables of a node
    def vars(self, label):
        return {"tag": z3.Int(f"{label}_tag"), "name": z3.Int(f"{label}_name"), "n": z3.Int(f"{label}_n"),
                "tp": z3.Int(f"{label}_tp")}

    def level(self, label):
        return label.count(".")

    def children(self, label):
        return [f"{label}.{i}" for i in range(MAX_ARITY)], f"{label}.r"

    def wf(self, label):
        """Well-formedness of the template rooted at `label` (no Error nodes, arities respected, depth bound)."""
        if label in self.wf_cache:
            return self.wf_cache[label]
        v = self.vars(label)
        V = self.variants
        idx = {name: V.index(name) for name in V}
        cs = [v["tag"] >= 0, v["tag"] < len(V), v["tag"] != idx["Error"],
              v["name"] >= 0, v["name"] < len(NAMES), v["tp"] >= 0, v["tp"] < len(TPARAMS),
              v["n"] >= 0, v["n"] <= MAX_ARITY]
        for i, nm in enumerate(NAMES):
            cs.append(z3.Implies(z3.And(v["tag"] == idx["UserDefined"], v["name"] == i), v["n"] == ARITY[nm]))
        leaf = self.level(label) >= self.depth
        if leaf:
            cs.append(v["tag"] != idx["Fun"])          # a Fun needs a return child
            cs.append(v["n"] == 0)
        else:
            kids, ret = self.children(label)
            for i, k in enumerate(kids):
                cs.append(z3.Implies(v["n"] > i, self.wf(k)))
            cs.append(z3.Implies(v["tag"] == idx["Fun"], self.wf(ret)))
        r = z3.And(*cs)
        self.wf_cache[label] = r
        return r

    # ---- template objects (rebuilt per execution path)
    def build(self, label):
        v = self.vars(label)
        leaf = self.level(label) >= self.depth
        kids, ret = self.children(label)
        space = self

        def factory(variant, label=label):
            def kidvec():
                if leaf:
                    return SymVec([], v["n"])
                return SymVec([space.build(k) for k in kids], v["n"])
            if variant == "Any":
                return []
            if variant == "Tuple":
                return [kidvec()]
            if variant == "Fun":
                return {"name_sym": NONE, "type_params": Vec([]), "params": kidvec(),
                        "return_": space.build(ret) if not leaf else Enum("Type", "Any", [])}  # leaf Fun is excluded by wf
            if variant == "UserDefined":
                return {"kind": Enum("TypeDefKind", "Enum", []),
                        "name": Struct("TypeName", {"text": AtomStr(v["name"], NAMES)}), "args": kidvec()}
            if variant == "TypeParameter":
                return [Struct("TypeName", {"text": AtomStr(v["tp"], TPARAMS)})]
            if variant == "Error":
                return {"internal_reason": Str("reason"), "inferred_type": NONE}   # excluded by wf; kept comparable
            raise Unsupported(f"unknown Type variant {variant}")
        node = SymEnum("Type", self.variants, v["tag"], factory, label=label)
        return node

    # ---- merged execution of is_subtype on two template labels
    def subtype(self, la, lb):
        key = (la, lb)
        if key in self.summaries:
            return self.summaries[key]
        fn = self.P.fns["is_subtype"]
        space = self

        def native(I, args, node):
            a, b = I.deref(args[0]), I.deref(args[1])
            if isinstance(a, SymEnum) and isinstance(b, SymEnum) and a.label and b.label:
                return space.subtype(a.label, b.label)
            raise Unsupported(f"is_subtype called on a non-template type inside a summary: {a!r} / {b!r}"[:300])

        def run(ctx):
            # a summary is only ever used for nodes that exist (within their parent's arity): assume the two
            # sub-templates themselves are well-formed
            ctx.assume(z3.And(space.wf(la), space.wf(lb)))
            I = Interp(space.P, ctx, natives={})
            A, B = space.build(la), space.build(lb)
            # the outermost invocation runs the real body; nested invocations go through the summaries
            I.natives = {"is_subtype": native}
            binds_fn = dict(fn)
            return I.call_user_body(fn, [A, B])
        res = explore(run, max_paths=5000)
        self.summary_paths += len(res)
        terms = []
        for r in res:
            if r.kind == "panic":
                self.panics.append((key, list(r.pc), r.value))
                continue
            if r.kind != "ok":
                raise UnwindExceeded(f"summary of is_subtype{key}: {r.kind} {r.value}")
            val = r.value
            if isinstance(val, bool):
                if val:
                    terms.append(z3.And(*r.pc) if r.pc else z3.BoolVal(True))
            else:
                terms.append(z3.And(*(r.pc + [val])))
        s = z3.simplify(z3.Or(*terms)) if terms else z3.BoolVal(False)
        self.summaries[key] = s
        return s


def type_to_json(m, space, label):
    """Concrete type (hook JSON) for the template rooted at label under model m."""
    v = space.vars(label)

    def ev(x):
        return m.eval(x, model_completion=True).as_long()
    tag = space.variants[ev(v["tag"])]
    n = ev(v["n"])
    kids, ret = space.children(label)
    if tag == "Any":
        return "Any"
    if tag == "Tuple":
        return {"Tuple": [type_to_json(m, space, k) for k in kids[:n]]}
    if tag == "Fun":
        return {"Fun": {"params": [type_to_json(m, space, k) for k in kids[:n]], "ret": type_to_json(m, space, ret)}}
    if tag == "UserDefined":
        return {"UD": {"name": NAMES[ev(v["name"])], "args": [type_to_json(m, space, k) for k in kids[:n]]}}
    if tag == "TypeParameter":
        return {"TP": TPARAMS[ev(v["tp"])]}
    return "Error"


def show(t):
    if t == "Any":
        return "Any"
    if "Tuple" in t:
        return "(" + ", ".join(show(x) for x in t["Tuple"]) + ("," if len(t["Tuple"]) == 1 else "") + ")"
    if "Fun" in t:
        return "Fun<(" + ", ".join(show(x) for x in t["Fun"]["params"]) + "), " + show(t["Fun"]["ret"]) + ">"
    if "UD" in t:
        a = t["UD"]["args"]
        return t["UD"]["name"] + ("<" + ", ".join(show(x) for x in a) + ">" if a else "")
    if "TP" in t:
        return t["TP"]
    return str(t)


class HookSession:
    """`garden verif <op>` child process (JSON lines)."""

    def __init__(self, op):
        import subprocess
        from vlib import native
        self.p = subprocess.Popen([native.garden_bin(), "verif", op], preexec_fn=native.die_with_parent, stdin=subprocess.PIPE, stdout=subprocess.PIPE,
                                  stderr=subprocess.DEVNULL, text=True)

    def ask(self, obj):
        import json
        self.p.stdin.write(json.dumps(obj) + "\n")
        self.p.stdin.flush()
        line = self.p.stdout.readline()
        return json.loads(line) if line.strip() else None

    def close(self):
        try:
            self.p.stdin.close()
            self.p.wait(timeout=3)
        except Exception:
            self.p.kill()
