//! verif-extract: parse real Rust source files of /repo with `syn` and dump the
//! items as a compact JSON AST for the Python symbolic interpreter (`rsx`).
//!
//! Usage:
//!   verif-extract ast <file.rs>...        -> {"files": {path: [items...]}}
//!   verif-extract nfa <pattern>           -> Thompson NFA of the pattern as JSON
//!   verif-extract refind                  -> stdin JSON lines {"pat":..,"hay":[bytes]} -> match end or null
//!
//! Nothing here interprets code; it is a faithful serialisation of syn's tree.

use proc_macro2::{Span, TokenStream, TokenTree};
use quote::ToTokens;
use serde_json::{json, Value as J};
use std::io::{BufRead, Read, Write};
use syn::spanned::Spanned;

fn line(sp: Span) -> usize {
    sp.start().line
}
fn end_line(sp: Span) -> usize {
    sp.end().line
}

fn ts(t: &impl ToTokens) -> String {
    t.to_token_stream().to_string()
}

fn path_segs(p: &syn::Path) -> Vec<String> {
    p.segments.iter().map(|s| s.ident.to_string()).collect()
}

fn path_json(p: &syn::Path) -> J {
    // Keep generic args as strings alongside; interpreter mostly ignores them.
    let mut gens: Vec<J> = vec![];
    for s in &p.segments {
        match &s.arguments {
            syn::PathArguments::None => gens.push(J::Null),
            other => gens.push(J::String(ts(other))),
        }
    }
    json!({"segs": path_segs(p), "gens": gens})
}

fn ty_json(t: &syn::Type) -> J {
    match t {
        syn::Type::Path(tp) => {
            let segs = path_segs(&tp.path);
            let mut args: Vec<J> = vec![];
            if let Some(last) = tp.path.segments.last() {
                if let syn::PathArguments::AngleBracketed(ab) = &last.arguments {
                    for a in &ab.args {
                        if let syn::GenericArgument::Type(t) = a {
                            args.push(ty_json(t));
                        }
                    }
                }
            }
            json!({"k": "path", "segs": segs, "args": args, "s": ts(t)})
        }
        syn::Type::Reference(r) => {
            json!({"k": "ref", "mut": r.mutability.is_some(), "elem": ty_json(&r.elem), "s": ts(t)})
        }
        syn::Type::Tuple(tt) => {
            json!({"k": "tuple", "elems": tt.elems.iter().map(ty_json).collect::<Vec<_>>(), "s": ts(t)})
        }
        syn::Type::Slice(s) => json!({"k": "slice", "elem": ty_json(&s.elem), "s": ts(t)}),
        syn::Type::Array(a) => json!({"k": "array", "elem": ty_json(&a.elem), "s": ts(t)}),
        syn::Type::Paren(p) => ty_json(&p.elem),
        syn::Type::Group(p) => ty_json(&p.elem),
        _ => json!({"k": "other", "s": ts(t)}),
    }
}

fn lit_json(l: &syn::Lit) -> J {
    match l {
        syn::Lit::Str(s) => json!({"k": "lit", "t": "str", "v": s.value()}),
        syn::Lit::ByteStr(s) => json!({"k": "lit", "t": "bytestr", "v": s.value()}),
        syn::Lit::Byte(b) => json!({"k": "lit", "t": "byte", "v": b.value()}),
        syn::Lit::Char(c) => json!({"k": "lit", "t": "char", "v": c.value() as u32}),
        syn::Lit::Int(i) => {
            json!({"k": "lit", "t": "int", "v": i.base10_digits(), "suffix": i.suffix()})
        }
        syn::Lit::Float(f) => {
            json!({"k": "lit", "t": "float", "v": f.base10_digits(), "suffix": f.suffix()})
        }
        syn::Lit::Bool(b) => json!({"k": "lit", "t": "bool", "v": b.value}),
        _ => json!({"k": "lit", "t": "other", "v": ts(l)}),
    }
}

fn pat_json(p: &syn::Pat) -> J {
    match p {
        syn::Pat::Ident(pi) => json!({
            "k": "ident", "name": pi.ident.to_string(), "by_ref": pi.by_ref.is_some(),
            "mut": pi.mutability.is_some(),
            "sub": pi.subpat.as_ref().map(|(_, sp)| pat_json(sp)),
        }),
        syn::Pat::Lit(l) => json!({"k": "lit", "lit": lit_json(&l.lit)}),
        syn::Pat::Or(o) => json!({"k": "or", "cases": o.cases.iter().map(pat_json).collect::<Vec<_>>()}),
        syn::Pat::Paren(pp) => pat_json(&pp.pat),
        syn::Pat::Path(pp) => json!({"k": "path", "path": path_json(&pp.path)}),
        syn::Pat::Range(r) => json!({
            "k": "range",
            "start": r.start.as_ref().map(|e| expr_json(e)),
            "end": r.end.as_ref().map(|e| expr_json(e)),
            "inclusive": matches!(r.limits, syn::RangeLimits::Closed(_)),
        }),
        syn::Pat::Reference(r) => json!({"k": "ref", "pat": pat_json(&r.pat)}),
        syn::Pat::Rest(_) => json!({"k": "rest"}),
        syn::Pat::Slice(s) => json!({"k": "slice", "elems": s.elems.iter().map(pat_json).collect::<Vec<_>>()}),
        syn::Pat::Struct(s) => json!({
            "k": "struct", "path": path_json(&s.path),
            "fields": s.fields.iter().map(|f| json!({
                "member": member_str(&f.member), "pat": pat_json(&f.pat)})).collect::<Vec<_>>(),
            "rest": s.rest.is_some(),
        }),
        syn::Pat::Tuple(t) => json!({"k": "tuple", "elems": t.elems.iter().map(pat_json).collect::<Vec<_>>()}),
        syn::Pat::TupleStruct(t) => json!({
            "k": "tuple_struct", "path": path_json(&t.path),
            "elems": t.elems.iter().map(pat_json).collect::<Vec<_>>()}),
        syn::Pat::Type(t) => json!({"k": "typed", "pat": pat_json(&t.pat), "ty": ty_json(&t.ty)}),
        syn::Pat::Wild(_) => json!({"k": "wild"}),
        syn::Pat::Const(_) | syn::Pat::Macro(_) | syn::Pat::Verbatim(_) => {
            json!({"k": "unsupported", "s": ts(p)})
        }
        _ => json!({"k": "unsupported", "s": ts(p)}),
    }
}

fn member_str(m: &syn::Member) -> String {
    match m {
        syn::Member::Named(i) => i.to_string(),
        syn::Member::Unnamed(i) => i.index.to_string(),
    }
}

/// Statements compiled out of the user-facing build: `#[cfg(test)]` and the
/// verification hooks `#[cfg(wilfred_garden_verif)]`.
fn cfg_disabled(attrs: &[syn::Attribute]) -> bool {
    attrs.iter().any(|a| {
        if !a.path().is_ident("cfg") {
            return false;
        }
        let m = ts(&a.meta).replace(' ', "");
        m == "cfg(test)" || m == "cfg(wilfred_garden_verif)"
    })
}

fn stmt_disabled(s: &syn::Stmt) -> bool {
    match s {
        syn::Stmt::Local(l) => cfg_disabled(&l.attrs),
        syn::Stmt::Macro(m) => cfg_disabled(&m.attrs),
        syn::Stmt::Expr(e, _) => match e {
            syn::Expr::Block(b) => cfg_disabled(&b.attrs),
            syn::Expr::If(b) => cfg_disabled(&b.attrs),
            syn::Expr::Call(b) => cfg_disabled(&b.attrs),
            syn::Expr::MethodCall(b) => cfg_disabled(&b.attrs),
            syn::Expr::Assign(b) => cfg_disabled(&b.attrs),
            syn::Expr::Macro(b) => cfg_disabled(&b.attrs),
            _ => false,
        },
        syn::Stmt::Item(_) => false,
    }
}

fn block_json(b: &syn::Block) -> J {
    json!({
        "k": "block",
        "line": line(b.span()),
        "stmts": b.stmts.iter().filter(|s| !stmt_disabled(s)).map(stmt_json).collect::<Vec<_>>(),
    })
}

fn stmt_json(s: &syn::Stmt) -> J {
    match s {
        syn::Stmt::Local(l) => {
            let (pat, ty) = match &l.pat {
                syn::Pat::Type(pt) => (pat_json(&pt.pat), Some(ty_json(&pt.ty))),
                p => (pat_json(p), None),
            };
            let (init, els) = match &l.init {
                Some(li) => (
                    Some(expr_json(&li.expr)),
                    li.diverge.as_ref().map(|(_, e)| expr_json(e)),
                ),
                None => (None, None),
            };
            json!({"k": "let", "line": line(l.span()), "pat": pat, "ty": ty, "init": init, "else": els})
        }
        syn::Stmt::Item(i) => json!({"k": "item", "item": item_json(i)}),
        syn::Stmt::Expr(e, semi) => json!({"k": "expr", "e": expr_json(e), "semi": semi.is_some()}),
        syn::Stmt::Macro(m) => json!({
            "k": "expr", "e": macro_json(&m.mac, line(m.span())), "semi": m.semi_token.is_some()}),
    }
}

struct MatchesArgs {
    expr: syn::Expr,
    pat: syn::Pat,
    guard: Option<syn::Expr>,
}
impl syn::parse::Parse for MatchesArgs {
    fn parse(input: syn::parse::ParseStream) -> syn::Result<Self> {
        let expr: syn::Expr = input.parse()?;
        input.parse::<syn::Token![,]>()?;
        let pat = syn::Pat::parse_multi_with_leading_vert(input)?;
        let guard = if input.peek(syn::Token![if]) {
            input.parse::<syn::Token![if]>()?;
            Some(input.parse::<syn::Expr>()?)
        } else {
            None
        };
        let _ = input.parse::<Option<syn::Token![,]>>();
        Ok(MatchesArgs { expr, pat, guard })
    }
}

struct VecRepeat {
    elem: syn::Expr,
    n: syn::Expr,
}
impl syn::parse::Parse for VecRepeat {
    fn parse(input: syn::parse::ParseStream) -> syn::Result<Self> {
        let elem: syn::Expr = input.parse()?;
        input.parse::<syn::Token![;]>()?;
        let n: syn::Expr = input.parse()?;
        Ok(VecRepeat { elem, n })
    }
}

struct ExprList(Vec<syn::Expr>);
impl syn::parse::Parse for ExprList {
    fn parse(input: syn::parse::ParseStream) -> syn::Result<Self> {
        let p = syn::punctuated::Punctuated::<syn::Expr, syn::Token![,]>::parse_terminated(input)?;
        Ok(ExprList(p.into_iter().collect()))
    }
}

fn macro_json(m: &syn::Macro, ln: usize) -> J {
    let name = path_segs(&m.path).join("::");
    let toks = m.tokens.clone();
    if name == "matches" {
        if let Ok(a) = syn::parse2::<MatchesArgs>(toks.clone()) {
            return json!({"k": "matches", "line": ln, "e": expr_json(&a.expr), "pat": pat_json(&a.pat),
                          "guard": a.guard.as_ref().map(expr_json)});
        }
    }
    if name == "vec" {
        if let Ok(r) = syn::parse2::<VecRepeat>(toks.clone()) {
            return json!({"k": "macro", "name": "vec_repeat", "line": ln,
                          "args": [expr_json(&r.elem), expr_json(&r.n)]});
        }
    }
    match syn::parse2::<ExprList>(toks.clone()) {
        Ok(l) => json!({"k": "macro", "name": name, "line": ln,
                        "args": l.0.iter().map(expr_json).collect::<Vec<_>>()}),
        Err(_) => json!({"k": "macro", "name": name, "line": ln, "args": J::Null, "raw": toks.to_string()}),
    }
}

fn expr_json(e: &syn::Expr) -> J {
    let ln = line(e.span());
    match e {
        syn::Expr::Array(a) => json!({"k": "array", "line": ln, "elems": a.elems.iter().map(expr_json).collect::<Vec<_>>()}),
        syn::Expr::Assign(a) => json!({"k": "assign", "line": ln, "lhs": expr_json(&a.left), "rhs": expr_json(&a.right)}),
        syn::Expr::Binary(b) => json!({"k": "binary", "line": ln, "op": ts(&b.op), "lhs": expr_json(&b.left), "rhs": expr_json(&b.right)}),
        syn::Expr::Block(b) => {
            let mut j = block_json(&b.block);
            if let Some(l) = &b.label {
                j["label"] = J::String(l.name.ident.to_string());
            }
            j
        }
        syn::Expr::Break(b) => json!({"k": "break", "line": ln,
            "label": b.label.as_ref().map(|l| l.ident.to_string()),
            "e": b.expr.as_ref().map(|e| expr_json(e))}),
        syn::Expr::Call(c) => json!({"k": "call", "line": ln, "f": expr_json(&c.func),
            "args": c.args.iter().map(expr_json).collect::<Vec<_>>()}),
        syn::Expr::Cast(c) => json!({"k": "cast", "line": ln, "e": expr_json(&c.expr), "ty": ty_json(&c.ty)}),
        syn::Expr::Closure(c) => json!({"k": "closure", "line": ln,
            "params": c.inputs.iter().map(pat_json).collect::<Vec<_>>(),
            "body": expr_json(&c.body)}),
        syn::Expr::Continue(c) => json!({"k": "continue", "line": ln,
            "label": c.label.as_ref().map(|l| l.ident.to_string())}),
        syn::Expr::Field(f) => json!({"k": "field", "line": ln, "e": expr_json(&f.base), "member": member_str(&f.member)}),
        syn::Expr::ForLoop(f) => json!({"k": "for", "line": ln, "pat": pat_json(&f.pat), "iter": expr_json(&f.expr),
            "body": block_json(&f.body), "label": f.label.as_ref().map(|l| l.name.ident.to_string())}),
        syn::Expr::Group(g) => expr_json(&g.expr),
        syn::Expr::If(i) => json!({"k": "if", "line": ln, "cond": expr_json(&i.cond), "then": block_json(&i.then_branch),
            "else": i.else_branch.as_ref().map(|(_, e)| expr_json(e))}),
        syn::Expr::Index(i) => json!({"k": "index", "line": ln, "e": expr_json(&i.expr), "idx": expr_json(&i.index)}),
        syn::Expr::Let(l) => json!({"k": "let_cond", "line": ln, "pat": pat_json(&l.pat), "e": expr_json(&l.expr)}),
        syn::Expr::Lit(l) => {
            let mut j = lit_json(&l.lit);
            j["line"] = json!(ln);
            j
        }
        syn::Expr::Loop(l) => json!({"k": "loop", "line": ln, "body": block_json(&l.body),
            "label": l.label.as_ref().map(|l| l.name.ident.to_string())}),
        syn::Expr::Macro(m) => macro_json(&m.mac, ln),
        syn::Expr::Match(m) => json!({"k": "match", "line": ln, "e": expr_json(&m.expr),
            "arms": m.arms.iter().map(|a| json!({
                "line": line(a.span()),
                "pat": pat_json(&a.pat),
                "guard": a.guard.as_ref().map(|(_, g)| expr_json(g)),
                "body": expr_json(&a.body)})).collect::<Vec<_>>()}),
        syn::Expr::MethodCall(m) => json!({"k": "mcall", "line": ln, "recv": expr_json(&m.receiver),
            "method": m.method.to_string(),
            "turbofish": m.turbofish.as_ref().map(|t| ts(t)),
            "args": m.args.iter().map(expr_json).collect::<Vec<_>>()}),
        syn::Expr::Paren(p) => expr_json(&p.expr),
        syn::Expr::Path(p) => json!({"k": "path", "line": ln, "path": path_json(&p.path),
            "qself": p.qself.as_ref().map(|q| ts(&q.ty))}),
        syn::Expr::Range(r) => json!({"k": "range", "line": ln,
            "start": r.start.as_ref().map(|e| expr_json(e)),
            "end": r.end.as_ref().map(|e| expr_json(e)),
            "inclusive": matches!(r.limits, syn::RangeLimits::Closed(_))}),
        syn::Expr::Reference(r) => json!({"k": "ref", "line": ln, "mut": r.mutability.is_some(), "e": expr_json(&r.expr)}),
        syn::Expr::Return(r) => json!({"k": "return", "line": ln, "e": r.expr.as_ref().map(|e| expr_json(e))}),
        syn::Expr::Struct(s) => json!({"k": "struct", "line": ln, "path": path_json(&s.path),
            "fields": s.fields.iter().map(|f| json!({"member": member_str(&f.member), "e": expr_json(&f.expr)})).collect::<Vec<_>>(),
            "rest": s.rest.as_ref().map(|e| expr_json(e))}),
        syn::Expr::Try(t) => json!({"k": "try", "line": ln, "e": expr_json(&t.expr)}),
        syn::Expr::Tuple(t) => json!({"k": "tuple", "line": ln, "elems": t.elems.iter().map(expr_json).collect::<Vec<_>>()}),
        syn::Expr::Unary(u) => json!({"k": "unary", "line": ln, "op": ts(&u.op), "e": expr_json(&u.expr)}),
        syn::Expr::While(w) => json!({"k": "while", "line": ln, "cond": expr_json(&w.cond), "body": block_json(&w.body),
            "label": w.label.as_ref().map(|l| l.name.ident.to_string())}),
        syn::Expr::Unsafe(u) => block_json(&u.block),
        _ => json!({"k": "unsupported", "line": ln, "s": ts(e)}),
    }
}

fn fields_json(f: &syn::Fields) -> J {
    match f {
        syn::Fields::Unit => json!({"kind": "unit"}),
        syn::Fields::Unnamed(u) => json!({"kind": "tuple",
            "types": u.unnamed.iter().map(|f| ty_json(&f.ty)).collect::<Vec<_>>()}),
        syn::Fields::Named(n) => json!({"kind": "named",
            "names": n.named.iter().map(|f| f.ident.as_ref().unwrap().to_string()).collect::<Vec<_>>(),
            "types": n.named.iter().map(|f| ty_json(&f.ty)).collect::<Vec<_>>()}),
    }
}

fn attrs_json(attrs: &[syn::Attribute]) -> Vec<String> {
    attrs
        .iter()
        .filter(|a| !a.path().is_ident("doc"))
        .map(|a| ts(&a.meta))
        .collect()
}

fn fn_sig_json(sig: &syn::Signature) -> (J, J, J) {
    let mut self_kind = J::Null;
    let mut params: Vec<J> = vec![];
    for a in &sig.inputs {
        match a {
            syn::FnArg::Receiver(r) => {
                self_kind = if r.reference.is_some() {
                    if r.mutability.is_some() {
                        json!("&mut")
                    } else {
                        json!("&")
                    }
                } else {
                    json!("val")
                };
            }
            syn::FnArg::Typed(t) => params.push(json!({"pat": pat_json(&t.pat), "ty": ty_json(&t.ty)})),
        }
    }
    let ret = match &sig.output {
        syn::ReturnType::Default => J::Null,
        syn::ReturnType::Type(_, t) => ty_json(t),
    };
    (self_kind, J::Array(params), ret)
}

fn src_hash(s: &str) -> String {
    // FNV-1a 64, enough to fingerprint the extracted text in evidence files.
    let mut h: u64 = 0xcbf29ce484222325;
    for b in s.as_bytes() {
        h ^= *b as u64;
        h = h.wrapping_mul(0x100000001b3);
    }
    format!("{h:016x}")
}

fn item_json(i: &syn::Item) -> J {
    match i {
        syn::Item::Fn(f) => {
            let (sk, params, ret) = fn_sig_json(&f.sig);
            json!({"k": "fn", "name": f.sig.ident.to_string(), "self": sk, "params": params, "ret": ret,
                   "body": block_json(&f.block), "line": line(f.sig.span()), "end_line": end_line(f.block.span()),
                   "attrs": attrs_json(&f.attrs),
                   "hash": src_hash(&ts(f))})
        }
        syn::Item::Impl(im) => {
            let mut items = vec![];
            for it in &im.items {
                match it {
                    syn::ImplItem::Fn(f) => {
                        let (sk, params, ret) = fn_sig_json(&f.sig);
                        items.push(json!({"k": "fn", "name": f.sig.ident.to_string(), "self": sk, "params": params,
                            "ret": ret, "body": block_json(&f.block), "line": line(f.sig.span()),
                            "end_line": end_line(f.block.span()), "attrs": attrs_json(&f.attrs),
                            "hash": src_hash(&ts(f))}));
                    }
                    syn::ImplItem::Const(c) => {
                        items.push(json!({"k": "const", "name": c.ident.to_string(), "ty": ty_json(&c.ty),
                            "e": expr_json(&c.expr), "line": line(c.span())}));
                    }
                    _ => {}
                }
            }
            json!({"k": "impl", "self_ty": ts(&im.self_ty), "self_ty_j": ty_json(&im.self_ty),
                   "trait": im.trait_.as_ref().map(|(_, p, _)| path_segs(p).join("::")),
                   "items": items, "line": line(im.span())})
        }
        syn::Item::Enum(e) => json!({"k": "enum", "name": e.ident.to_string(), "line": line(e.span()),
            "attrs": attrs_json(&e.attrs),
            "variants": e.variants.iter().map(|v| json!({
                "name": v.ident.to_string(), "fields": fields_json(&v.fields),
                "attrs": attrs_json(&v.attrs),
                "disc": v.discriminant.as_ref().map(|(_, e)| expr_json(e))})).collect::<Vec<_>>()}),
        syn::Item::Struct(s) => json!({"k": "struct", "name": s.ident.to_string(), "line": line(s.span()),
            "attrs": attrs_json(&s.attrs), "fields": fields_json(&s.fields)}),
        syn::Item::Const(c) => json!({"k": "const", "name": c.ident.to_string(), "ty": ty_json(&c.ty),
            "e": expr_json(&c.expr), "line": line(c.span())}),
        syn::Item::Static(c) => json!({"k": "const", "name": c.ident.to_string(), "ty": ty_json(&c.ty),
            "e": expr_json(&c.expr), "line": line(c.span())}),
        syn::Item::Macro(m) => {
            let name = path_segs(&m.mac.path).join("::");
            if name == "lazy_static" {
                json!({"k": "lazy_static", "line": line(m.span()), "statics": lazy_statics(m.mac.tokens.clone())})
            } else if name == "thread_local" {
                json!({"k": "thread_local", "line": line(m.span()), "raw": m.mac.tokens.to_string()})
            } else {
                json!({"k": "item_macro", "name": name, "line": line(m.span()),
                       "ident": m.ident.as_ref().map(|i| i.to_string()),
                       "raw": m.mac.tokens.to_string()})
            }
        }
        syn::Item::Mod(m) => {
            let is_test = m.attrs.iter().any(|a| ts(&a.meta).contains("test"));
            match (&m.content, is_test) {
                (Some((_, items)), false) => json!({"k": "mod", "name": m.ident.to_string(),
                    "items": items.iter().map(item_json).collect::<Vec<_>>()}),
                _ => json!({"k": "mod_decl", "name": m.ident.to_string(), "test": is_test,
                            "attrs": attrs_json(&m.attrs)}),
            }
        }
        syn::Item::Use(u) => json!({"k": "use", "s": ts(u)}),
        syn::Item::Type(t) => json!({"k": "type_alias", "name": t.ident.to_string(), "ty": ty_json(&t.ty)}),
        syn::Item::Trait(t) => json!({"k": "trait", "name": t.ident.to_string()}),
        _ => json!({"k": "other_item", "s": ts(i).chars().take(80).collect::<String>()}),
    }
}

/// `static ref NAME: TY = EXPR;` sequences inside lazy_static!.
fn lazy_statics(tokens: TokenStream) -> Vec<J> {
    let mut out = vec![];
    let mut cur: Vec<TokenTree> = vec![];
    for tt in tokens {
        let is_semi = matches!(&tt, TokenTree::Punct(p) if p.as_char() == ';');
        if is_semi {
            if let Some(j) = one_lazy_static(&cur) {
                out.push(j);
            }
            cur.clear();
        } else {
            cur.push(tt);
        }
    }
    out
}

fn one_lazy_static(toks: &[TokenTree]) -> Option<J> {
    // [pub] static ref NAME : TY... = EXPR...
    let mut i = 0;
    while i < toks.len() {
        if let TokenTree::Ident(id) = &toks[i] {
            if id == "ref" {
                break;
            }
        }
        i += 1;
    }
    let name = match toks.get(i + 1)? {
        TokenTree::Ident(id) => id.to_string(),
        _ => return None,
    };
    let eq = toks
        .iter()
        .position(|t| matches!(t, TokenTree::Punct(p) if p.as_char() == '='))?;
    let ty: TokenStream = toks[i + 3..eq].iter().cloned().collect();
    let ex: TokenStream = toks[eq + 1..].iter().cloned().collect();
    let e = syn::parse2::<syn::Expr>(ex).ok()?;
    Some(json!({"name": name, "ty": ty.to_string(), "e": expr_json(&e), "line": line(toks[i].span())}))
}

fn cmd_ast(paths: &[String]) -> J {
    let mut files = serde_json::Map::new();
    for p in paths {
        let src = match std::fs::read_to_string(p) {
            Ok(s) => s,
            Err(e) => {
                files.insert(p.clone(), json!({"error": format!("read: {e}")}));
                continue;
            }
        };
        match syn::parse_file(&src) {
            Ok(f) => {
                files.insert(
                    p.clone(),
                    json!({"items": f.items.iter().map(item_json).collect::<Vec<_>>(),
                           "hash": src_hash(&src), "lines": src.lines().count()}),
                );
            }
            Err(e) => {
                files.insert(p.clone(), json!({"error": format!("parse: {e}")}));
            }
        }
    }
    json!({ "files": files })
}

// ---------------------------------------------------------------- regex NFA

fn nfa_json(pattern: &str) -> J {
    use regex_automata::nfa::thompson::{State, NFA};
    // Same configuration the `regex` crate uses for `Regex::new` on a &str
    // pattern: unicode on, utf8 on.
    let nfa = match NFA::compiler()
        .configure(NFA::config().utf8(true).shrink(false))
        .build(pattern)
    {
        Ok(n) => n,
        Err(e) => return json!({"error": format!("{e}")}),
    };
    let mut states = vec![];
    for st in nfa.states() {
        states.push(match st {
            State::ByteRange { trans } => {
                json!({"t": "range", "lo": trans.start, "hi": trans.end, "next": trans.next.as_usize()})
            }
            State::Sparse(sp) => json!({"t": "sparse", "trans": sp.transitions.iter().map(|t|
                json!([t.start, t.end, t.next.as_usize()])).collect::<Vec<_>>()}),
            State::Dense(d) => json!({"t": "dense", "trans": d.transitions.iter().map(|s| s.as_usize()).collect::<Vec<_>>()}),
            State::Look { look, next } => json!({"t": "look", "look": format!("{look:?}"), "next": next.as_usize()}),
            State::Union { alternates } => {
                json!({"t": "union", "alts": alternates.iter().map(|s| s.as_usize()).collect::<Vec<_>>()})
            }
            State::BinaryUnion { alt1, alt2 } => {
                json!({"t": "union", "alts": [alt1.as_usize(), alt2.as_usize()]})
            }
            State::Capture { next, .. } => json!({"t": "eps", "next": next.as_usize()}),
            State::Fail => json!({"t": "fail"}),
            State::Match { .. } => json!({"t": "match"}),
        });
    }
    json!({
        "pattern": pattern,
        "start_anchored": nfa.start_anchored().as_usize(),
        "start_unanchored": nfa.start_unanchored().as_usize(),
        "states": states,
    })
}

/// Reference matcher used only for translator validation of the rxnfa encoding:
/// leftmost-first match of `pat` on `hay` (must be UTF-8) searched from offset 0.
fn cmd_refind() {
    use regex_automata::meta::Regex;
    let stdin = std::io::stdin();
    let mut cache: std::collections::HashMap<String, Regex> = Default::default();
    let out = std::io::stdout();
    let mut out = out.lock();
    for l in stdin.lock().lines() {
        let l = l.unwrap();
        if l.trim().is_empty() {
            continue;
        }
        let v: J = serde_json::from_str(&l).unwrap();
        let pat = v["pat"].as_str().unwrap().to_string();
        let hay: Vec<u8> = v["hay"].as_array().unwrap().iter().map(|b| b.as_u64().unwrap() as u8).collect();
        let re = cache.entry(pat.clone()).or_insert_with(|| Regex::new(&pat).unwrap());
        let r = match re.find(&hay[..]) {
            Some(m) => json!({"start": m.start(), "end": m.end()}),
            None => J::Null,
        };
        writeln!(out, "{r}").unwrap();
    }
}

fn main() {
    let args: Vec<String> = std::env::args().collect();
    if args.len() < 2 {
        eprintln!("usage: verif-extract ast <files..> | nfa <pattern> | refind");
        std::process::exit(2);
    }
    match args[1].as_str() {
        "ast" => {
            let j = cmd_ast(&args[2..]);
            println!("{}", j);
        }
        "nfa" => {
            let pat = if args.len() > 2 {
                args[2].clone()
            } else {
                let mut s = String::new();
                std::io::stdin().read_to_string(&mut s).unwrap();
                s
            };
            println!("{}", nfa_json(&pat));
        }
        "refind" => cmd_refind(),
        _ => {
            eprintln!("unknown command");
            std::process::exit(2);
        }
    }
}
