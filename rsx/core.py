"""rsx core: value domains, path context (decision replay + solver), exceptions.

A path-forking symbolic executor in the KLEE/DART style: the interpreter is a
plain recursive evaluator; every branch on a symbolic condition consults the
`Ctx`, which replays a recorded decision prefix and, at the frontier, asks z3
which directions are feasible and queues the alternatives.  Scalars (i64, u32,
usize, f64, char, bool) are z3 terms; shapes (vector lengths, enum tags of
template nodes) are decided by forking with solver-checked feasibility.
"""
import gc
import itertools
import time
import z3

# ----------------------------------------------------------------- exceptions


class Panic(Exception):
    def __init__(self, kind, line=None, msg="", fn=None):
        super().__init__(f"{kind} at line {line}: {msg}")
        self.kind, self.line, self.msg, self.fn = kind, line, msg, fn


class Unsupported(Exception):
    pass


class UnwindExceeded(Exception):
    pass


class Infeasible(Exception):
    """assume(false) on this path."""


class ReturnEx(Exception):
    def __init__(self, value):
        self.value = value


class BreakEx(Exception):
    def __init__(self, label=None, value=None):
        self.label, self.value = label, value


class ContinueEx(Exception):
    def __init__(self, label=None):
        self.label = label


# --------------------------------------------------------------------- values

_ids = itertools.count(1)


def fresh_id():
    return next(_ids)


class Int:
    """Machine integer: v is a python int (normalised) or a z3 BitVecRef."""
    __slots__ = ("v", "w", "s")

    def __init__(self, v, w=64, s=True):
        self.w, self.s = w, s
        if isinstance(v, int):
            v &= (1 << w) - 1
            if s and v >> (w - 1):
                v -= 1 << w
        self.v = v

    @property
    def conc(self):
        return isinstance(self.v, int)

    def z(self):
        if isinstance(self.v, int):
            return z3.BitVecVal(self.v, self.w)
        return self.v

    def ty(self):
        return {(64, True): "i64", (64, False): "usize", (32, False): "u32", (32, True): "i32",
                (8, False): "u8", (16, False): "u16", (8, True): "i8", (16, True): "i16"}.get((self.w, self.s), f"int{self.w}")

    def __repr__(self):
        return f"Int({self.v}:{self.ty()})"


INT_TYPES = {"i64": (64, True), "u64": (64, False), "usize": (64, False), "isize": (64, True),
             "i32": (32, True), "u32": (32, False), "u8": (8, False), "i8": (8, True),
             "u16": (16, False), "i16": (16, True), "u128": (128, False), "i128": (128, True)}


def simp(e):
    return z3.simplify(e)


def int_from_z(e, w, s):
    e = simp(e)
    if z3.is_bv_value(e):
        return Int(e.as_long(), w, s)
    return Int(e, w, s)


class Float:
    __slots__ = ("v",)

    def __init__(self, v):
        if isinstance(v, (int, float)):
            v = z3.FPVal(float(v), z3.Float64())
        self.v = v

    def __repr__(self):
        return f"Float({self.v})"


class Char:
    """Unicode scalar value: python int or z3 BitVec(32)."""
    __slots__ = ("v",)

    def __init__(self, v):
        self.v = v

    @property
    def conc(self):
        return isinstance(self.v, int)

    def z(self):
        return z3.BitVecVal(self.v, 32) if isinstance(self.v, int) else self.v

    def __repr__(self):
        return f"Char({self.v if not self.conc else repr(chr(self.v))})"


class Opaque:
    """Result of an unmodelled call: unconstrained, tainted."""
    __slots__ = ("label",)

    def __init__(self, label):
        self.label = label

    def __repr__(self):
        return f"Opaque({self.label})"


class Struct:
    def __init__(self, name, fields, partial=False):
        self.name, self.fields, self.partial = name, fields, partial
        self.id = fresh_id()

    def __repr__(self):
        return f"{self.name}{{{', '.join(f'{k}: {v!r}' for k, v in self.fields.items())}}}"


class Enum:
    """Enum value with a concrete variant. fields: list (tuple variant) or dict (named)."""

    def __init__(self, ty, variant, fields=None):
        self.ty, self.variant, self.fields = ty, variant, fields if fields is not None else []
        self.id = fresh_id()

    def __repr__(self):
        if not self.fields:
            return f"{self.ty}::{self.variant}"
        return f"{self.ty}::{self.variant}{self.fields!r}"


class SymEnum:
    """Template node: symbolic tag over `variants`; fields materialised per
    variant by `factory(variant)`.  The interpreter concretises the tag by
    forking when the node is matched on."""

    def __init__(self, ty, variants, tag, factory, label=""):
        self.ty, self.variants, self.tag, self.factory, self.label = ty, variants, tag, factory, label
        self.id = fresh_id()
        self._fields = {}

    def fields_for(self, variant):
        if variant not in self._fields:
            self._fields[variant] = self.factory(variant)
        return self._fields[variant]

    def __repr__(self):
        return f"SymEnum({self.ty}#{self.label})"


class Vec:
    def __init__(self, items=None, kind="Vec"):
        self.items = list(items) if items is not None else []
        self.kind = kind
        self.id = fresh_id()

    def __repr__(self):
        return f"{self.kind}{self.items!r}"


class Str:
    """String: python str when concrete, else list of Char."""

    def __init__(self, s):
        self.s = s
        self.id = fresh_id()

    @property
    def conc(self):
        return isinstance(self.s, str)

    def chars(self):
        if isinstance(self.s, str):
            return [Char(ord(c)) for c in self.s]
        return list(self.s)

    def __repr__(self):
        return f"Str({self.s!r})"


class SymVec(Vec):
    """Vector of symbolic length n (a z3 Int, 0..len(all_items)): resolved to a concrete prefix by forking the
    first time its contents are used; equality on unresolved vectors is merged (fork-free)."""

    def __init__(self, all_items, n, kind="Vec"):
        super().__init__(list(all_items), kind)
        self.all_items = list(all_items)
        self.n = n
        self.resolved = False


class AtomStr(Str):
    """A string known only up to identity: one of `table`, selected by the z3 Int `atom`."""

    def __init__(self, atom, table):
        super().__init__(None)
        self.atom, self.table = atom, list(table)

    @property
    def conc(self):
        return False

    def __repr__(self):
        return f"AtomStr({self.atom})"


class Rc:
    def __init__(self, inner, ident=None):
        self.inner = inner
        self.ident = ident if ident is not None else fresh_id()

    def __repr__(self):
        return f"Rc#{self.ident}({self.inner!r})"


class Map:
    def __init__(self, entries=None):
        self.entries = list(entries) if entries else []
        self.id = fresh_id()

    def __repr__(self):
        return f"Map{self.entries!r}"


class Closure:
    def __init__(self, params, body, scopes, fn_ctx):
        self.params, self.body, self.scopes, self.fn_ctx = params, body, scopes, fn_ctx


class FnRef:
    """A resolved callable: user fn (ast dict), native python callable, or enum/struct ctor."""

    def __init__(self, kind, target, name, self_ty=None):
        self.kind, self.target, self.name, self.self_ty = kind, target, name, self_ty

    def __repr__(self):
        return f"FnRef({self.kind}:{self.name})"


class Ref:
    """Mutable place reference (for scalars / enums held in locals or fields)."""

    def __init__(self, getter, setter):
        self.get, self.set = getter, setter


class RangeV:
    def __init__(self, start, end, inclusive):
        self.start, self.end, self.inclusive = start, end, inclusive


class IterV:
    """Lazy-ish iterator model: a python list of already-computed items."""

    def __init__(self, items):
        self.items = list(items)
        self.pos = 0


UNIT = ()


def some(v):
    return Enum("Option", "Some", [v])


NONE = Enum("Option", "None", [])


def ok(v):
    return Enum("Result", "Ok", [v])


def err(v):
    return Enum("Result", "Err", [v])


# -------------------------------------------------------------------- context


class Stats:
    def __init__(self):
        self.solver_calls = 0
        self.solver_s = 0.0
        self.paths = 0
        self.queries_unsat = 0
        self.queries_sat = 0
        self.queries_unknown = 0
        self.smt_dumps = []  # (name, assertions, z3 verdict): first 8 sat + a reservoir sample of 60 others
        self._n_sat_kept = 0
        self._n_other_seen = 0
        self._rng = __import__("random").Random(0)

    def keep_dump(self, d):
        if d[2] == "sat":
            if self._n_sat_kept < 8:
                self._n_sat_kept += 1
                self.smt_dumps.append(d)
            return
        self._n_other_seen += 1
        if self._n_other_seen <= 60:
            self.smt_dumps.append(d)
            return
        j = self._rng.randrange(self._n_other_seen)
        if j < 60:
            idx = [i for i, x in enumerate(self.smt_dumps) if x[2] != "sat"]
            self.smt_dumps[idx[j]] = d


STATS = Stats()


RLIMIT_FEASIBILITY = 40000000
RLIMIT_OBLIGATION = 200000000
GC_EVERY = 1
_gc_state = [0]


class Ctx:
    """One path: decision prefix to replay, path condition, taint."""

    def __init__(self, decisions, worklist, timeout_ms=20000, base_pc=()):
        self.decisions = list(decisions)
        self.pos = 0
        self.worklist = worklist
        self.pc = list(base_pc)
        self.solver = z3.Solver()
        # feasibility checks are many and cheap: a wall-clock timeout makes z3 start a timer thread per check (stack
        # mmap/munmap each time, costly in forked workers); a deterministic resource limit needs none.  A check that
        # exhausts it is retried once under the wall-clock cap.
        self.timeout_ms = timeout_ms
        self.solver.set("rlimit", RLIMIT_FEASIBILITY)
        for c in base_pc:
            self.solver.add(c)
        self.tainted = False
        self.known_tags = {}
        self.record_free = None
        self.force_free = None
        self.notes = []
        self.nbranch = 0

    # -- solver helpers
    def _check(self, *assumps):
        t = time.time()
        r = self.solver.check(*assumps)
        if r == z3.unknown:
            self.solver.set("rlimit", 0)
            self.solver.set("timeout", self.timeout_ms)
            r = self.solver.check(*assumps)
        STATS.solver_calls += 1
        STATS.solver_s += time.time() - t
        return r

    def feasible(self, cond):
        r = self._check(cond)
        if r == z3.unknown:
            raise Unsupported("solver returned unknown on a feasibility check")
        return r == z3.sat

    def add(self, cond):
        self.pc.append(cond)
        self.solver.add(cond)

    def assume(self, cond):
        if isinstance(cond, bool):
            if not cond:
                raise Infeasible()
            return
        if not self.feasible(cond):
            raise Infeasible()
        self.add(cond)

    # -- branching
    def branch(self, cond):
        """Return a python bool for `cond`, forking if both directions are feasible."""
        if isinstance(cond, bool):
            return cond
        if isinstance(cond, Opaque):
            return self.choose_free(2, f"opaque-branch:{cond.label}") == 0
        cond = simp(cond)
        if z3.is_true(cond):
            return True
        if z3.is_false(cond):
            return False
        self.nbranch += 1
        if self.pos < len(self.decisions):
            d = self.decisions[self.pos]
            self.pos += 1
            self.add(cond if d else z3.Not(cond))
            return bool(d)
        t_ok = self.feasible(cond)
        f_ok = self.feasible(z3.Not(cond))
        if t_ok and f_ok:
            self.worklist.append(self.decisions + [0])
            d = 1
        elif t_ok:
            d = 1
        elif f_ok:
            d = 0
        else:
            raise Infeasible()
        self.decisions.append(d)
        self.pos += 1
        self.add(cond if d else z3.Not(cond))
        return bool(d)

    def choose(self, conds):
        """n-way fork: conds[i] is the z3 condition of option i. Returns chosen index."""
        if self.pos < len(self.decisions):
            d = self.decisions[self.pos]
            self.pos += 1
            if conds[d] is not True:
                self.add(conds[d])
            return d
        feas = [i for i, c in enumerate(conds) if c is True or (c is not False and self.feasible(c))]
        if not feas:
            raise Infeasible()
        for j in feas[1:]:
            self.worklist.append(self.decisions + [j])
        d = feas[0]
        self.decisions.append(d)
        self.pos += 1
        if conds[d] is not True:
            self.add(conds[d])
        return d

    def choose_free(self, n, why=""):
        """Unconstrained n-way fork (taint: over-approximates reachability)."""
        self.tainted = True
        self.notes.append(why)
        # tape mode: a second execution of the same step re-takes the free decisions of the first, in order
        if self.force_free is not None and self.force_free:
            want = self.force_free.pop(0)
            if want < n:
                if self.pos < len(self.decisions):
                    d = self.decisions[self.pos]
                    self.pos += 1
                    return d
                self.decisions.append(want)
                self.pos += 1
                return want
        d = self.choose([True] * n)
        if self.record_free is not None:
            self.record_free.append(d)
        return d

    def concretize_tag(self, node):
        if node.id in self.known_tags:
            return self.known_tags[node.id]
        conds = [node.tag == i for i in range(len(node.variants))]
        k = self.choose(conds)
        v = node.variants[k]
        self.known_tags[node.id] = v
        return v

    def concretize_int(self, x, lo, hi):
        """Fork over the values lo..=hi of symbolic Int x; returns python int."""
        if isinstance(x, int):
            return x
        if x.conc:
            return x.v
        conds = [x.v == z3.BitVecVal(i, x.w) for i in range(lo, hi + 1)]
        return lo + self.choose(conds)

    def model(self, extra=()):
        r = self._check(*extra)
        if r != z3.sat:
            return None
        return self.solver.model()


class PathResult:
    def __init__(self, kind, value, ctx, info=None):
        self.kind = kind          # 'ok' | 'panic' | 'unsupported' | 'unwind'
        self.value = value
        self.pc = list(ctx.pc)
        self.tainted = ctx.tainted
        self.notes = list(ctx.notes)
        self.decisions = list(ctx.decisions)
        self.info = info
        self.ctx = None   # the path context (and its solver) is not retained: only pc / decisions are needed later


def explore(run, max_paths=20000, timeout_ms=20000, base_pc=(), initial=None, on_result=None):
    """Enumerate all feasible paths of `run(ctx)`; returns list of PathResult.
    initial: decision prefixes to start from (only their extensions are explored).
    on_result: if given, each PathResult is handed to it (with its index) and not retained (streaming: large spaces)."""
    worklist = [list(d) for d in initial] if initial is not None else [[]]
    results = []
    # results of earlier explorations that took part in reference cycles were promoted to the oldest generation while
    # they were alive; now that the caller has dropped them only a full collection frees them (and their z3 terms).
    # Done here, where little is live, once enough paths have accumulated.
    if GC_EVERY and _gc_state[0] >= 300:
        _gc_state[0] = 0
        gc.collect()
    n_done = 0
    while worklist:
        if n_done >= max_paths:
            raise UnwindExceeded(f"more than {max_paths} paths")
        dec = worklist.pop()
        ctx = Ctx(dec, worklist, timeout_ms=timeout_ms, base_pc=base_pc)
        try:
            v = run(ctx)
            res = PathResult("ok", v, ctx)
        except Panic as p:
            res = PathResult("panic", p, ctx)
        except Infeasible:
            continue
        except UnwindExceeded as u:
            res = PathResult("unwind", u, ctx)
        if on_result is not None:
            on_result(n_done, res)
            res = v = None
        else:
            results.append(res)
        n_done += 1
        STATS.paths += 1
        _gc_state[0] += 1
        if GC_EVERY and STATS.paths % GC_EVERY == 0:
            # a path's interpreter, context and z3 solver form reference cycles: reclaim them while they are young
            # (the automatic collector is throttled, see vlib/check.py) instead of letting solvers pile up
            ctx = None
            gc.collect(1)
    return results


# ---------------------------------------------------------- deciding queries

class Decider:
    """Discharges obligations `pc => claim` with z3, dumps SMT-LIB2 for cvc5."""

    def __init__(self, timeout_ms=20000):
        self.timeout_ms = timeout_ms
        self.log = []

    def prove(self, name, pc, claim):
        """Returns ('unsat', None) if pc => claim holds, ('sat', model) with a
        counterexample, or ('unknown', None)."""
        s = z3.Solver()
        # resource limit first (no timer thread: a second thread makes every munmap of the interpreter's frame-stack
        # chunks a cross-CPU TLB flush); the wall-clock cap only for a query that exhausts it
        s.set("rlimit", RLIMIT_OBLIGATION)
        for c in pc:
            s.add(c)
        if claim is True:
            neg = z3.BoolVal(False)
        elif claim is False:
            neg = z3.BoolVal(True)
        else:
            neg = z3.Not(claim)
        s.add(neg)
        t = time.time()
        r = s.check()
        if r == z3.unknown:
            s.set("rlimit", 0)
            s.set("timeout", self.timeout_ms)
            r = s.check()
        dt = time.time() - t
        STATS.solver_calls += 1
        STATS.solver_s += dt
        verdict = "sat" if r == z3.sat else "unsat" if r == z3.unsat else "unknown"
        if verdict == "unsat":
            STATS.queries_unsat += 1
        elif verdict == "sat":
            STATS.queries_sat += 1
        else:
            STATS.queries_unknown += 1
        # keep the assertions; the SMT-LIB2 text is rendered lazily for the queries cvc5 re-decides
        # (a bounded sample: retaining every query's assertions is the largest memory consumer of a long run)
        STATS.keep_dump((name, list(s.assertions()), verdict))
        self.log.append({"name": name, "verdict": verdict, "solver_s": round(dt, 4)})
        return verdict, (s.model() if verdict == "sat" else None)

    def sat(self, name, conds):
        """Reachability/vacuity query: is the conjunction satisfiable?"""
        v, m = self.prove(name, conds, False)
        return v, m
