"""rsx interpreter: executes the syn-extracted Rust subset symbolically."""
import json
import os
import subprocess
import sys
import z3

from .core import *  # noqa
from . import core

sys.setrecursionlimit(20000)

VERIF = os.path.dirname(os.path.dirname(os.path.abspath(__file__)))
EXTRACT_BIN = os.path.join(VERIF, ".cache", "extract-target", "release", "verif-extract")
REPO = os.environ.get("VERIF_REPO", "/repo")


# ----------------------------------------------------------------- bool algebra

def is_z3bool(x):
    return isinstance(x, z3.BoolRef)


def b_not(a):
    if isinstance(a, bool):
        return not a
    if isinstance(a, Opaque):
        return a
    return simp(z3.Not(a))


def b_and(*xs):
    out = []
    opq = None
    for x in xs:
        if isinstance(x, bool):
            if not x:
                return False
            continue
        if isinstance(x, Opaque):
            opq = opq or x
            continue
        out.append(x)
    if opq is not None:
        return opq      # a definite False wins over an opaque conjunct; otherwise the conjunction is opaque
    if not out:
        return True
    if len(out) == 1:
        return out[0]
    return simp(z3.And(*out))


def b_or(*xs):
    out = []
    opq = None
    for x in xs:
        if isinstance(x, bool):
            if x:
                return True
            continue
        if isinstance(x, Opaque):
            opq = opq or x
            continue
        out.append(x)
    if opq is not None:
        return opq
    if not out:
        return False
    if len(out) == 1:
        return out[0]
    return simp(z3.Or(*out))


def to_z3bool(x):
    if isinstance(x, bool):
        return z3.BoolVal(x)
    return x


# ------------------------------------------------------------------ program

OPAQUE_INDEX_MAY_PANIC = False   # set by checks that study panics (C02)


class Program:
    """Index over the extracted items of a set of real source files."""

    def __init__(self, files, repo=None):
        repo = repo or REPO
        self.repo = repo
        paths = [os.path.join(repo, f) for f in files]
        out = subprocess.run([EXTRACT_BIN, "ast"] + paths, capture_output=True, text=True, check=True)
        data = json.loads(out.stdout)
        self.fns = {}        # name -> fn ast (free functions)
        self.methods = {}    # (type, name) -> fn ast
        self.enums = {}      # name -> enum ast
        self.structs = {}    # name -> struct ast
        self.consts = {}     # name -> const ast
        self.statics = {}    # lazy_static name -> ast
        self.eq_types = set()      # types with `impl Eq` / derive(Eq)
        self.glob_variants = {}    # variant name -> enum name (from `use X::*`)
        self.file_of = {}
        self.file_hash = {}
        self.errors = []
        for p, f in zip(paths, files):
            d = data["files"][p]
            if "error" in d:
                self.errors.append(f"{f}: {d['error']}")
                continue
            self.file_hash[f] = d["hash"]
            self._index(d["items"], f)
        # resolve glob imports after all enums are known
        for f, use in self._uses:
            s = use.replace(" ", "")
            if s.endswith("::*;"):
                segs = s[:-4].split("::")
                en = segs[-1]
                if en in self.enums:
                    for v in self.enums[en]["variants"]:
                        self.glob_variants[v["name"]] = en
        # the extracted AST lives for the whole run: keep the cyclic collector from re-walking it
        import gc
        gc.collect()
        gc.freeze()

    _uses = []

    def _index(self, items, f):
        for it in items:
            k = it["k"]
            if k == "fn":
                it["file"] = f
                self.fns[it["name"]] = it
            elif k == "impl":
                ty = it["self_ty"].split("<")[0].strip()
                if it["trait"] in ("Eq",):
                    self.eq_types.add(ty)
                for m in it["items"]:
                    if m["k"] == "fn":
                        m["file"] = f
                        m["impl_ty"] = ty
                        m["trait"] = it["trait"]
                        self.methods[(ty, m["name"])] = m
                    elif m["k"] == "const":
                        self.consts[ty + "::" + m["name"]] = m
            elif k == "enum":
                self.enums[it["name"]] = it
                if any("derive" in a and "Eq" in a.replace("PartialEq", "") for a in it["attrs"]):
                    self.eq_types.add(it["name"])
            elif k == "struct":
                self.structs[it["name"]] = it
                if any("derive" in a and "Eq" in a.replace("PartialEq", "") for a in it["attrs"]):
                    self.eq_types.add(it["name"])
            elif k == "const":
                self.consts[it["name"]] = it
            elif k == "lazy_static":
                for s in it["statics"]:
                    self.statics[s["name"]] = s
            elif k == "mod":
                self._index(it["items"], f)
            elif k == "use":
                Program._uses.append((f, it["s"]))

    def fn_info(self, name, ty=None):
        f = self.methods.get((ty, name)) if ty else self.fns.get(name)
        if f is None:
            return None
        return {"fn": (ty + "::" if ty else "") + name, "file": f["file"], "lines": [f["line"], f["end_line"]],
                "hash": f["hash"]}

    def variant(self, enum, name):
        e = self.enums.get(enum)
        if not e:
            return None
        for v in e["variants"]:
            if v["name"] == name:
                return v
        return None

    def variant_names(self, enum):
        return [v["name"] for v in self.enums[enum]["variants"]]


# -------------------------------------------------------------- interpreter

class FnCtx:
    def __init__(self, name, self_ty):
        self.name, self.self_ty = name, self_ty


class Interp:
    def __init__(self, prog, ctx, profile="dev", natives=None, loop_bound=64, depth_bound=200,
                 opaque_fns=()):
        self.p = prog
        self.ctx = ctx
        self.profile = profile
        self.natives = natives or {}
        self.loop_bound = loop_bound
        self.depth_bound = depth_bound
        self.opaque_fns = set(opaque_fns)
        self.depth = 0
        self.scopes = [{}]
        self.fn = FnCtx("<harness>", None)
        self.havocs = set()
        self.called = set()
        self.trace_calls = False
        self.on_call = None
        self.std_calls = []   # unmodelled std / third-party calls in execution order (C24 sinks)
        self.err_origin = None

    # ---------------------------------------------------------------- utils
    def unsupported(self, what, node=None):
        line = node.get("line") if isinstance(node, dict) else None
        raise Unsupported(f"{what} (fn {self.fn.name}, line {line})")

    def panic(self, kind, node, msg=""):
        line = node.get("line") if isinstance(node, dict) else node
        raise Panic(kind, line, msg, self.fn.name)

    def havoc(self, label):
        self.havocs.add(label)
        return Opaque(label)

    def deref(self, v):
        while isinstance(v, Ref):
            v = v.get()
        if isinstance(v, SymVec) and not v.resolved:
            self.resolve_vec(v)
        return v

    def resolve_vec(self, v):
        """Fork on the length of a symbolic-length vector (solver-checked)."""
        k = self.ctx.choose([v.n == i for i in range(len(v.all_items) + 1)])
        v.items = list(v.all_items[:k])
        v.resolved = True
        return v

    def symvec_eq(self, a, b, node):
        """Merged equality of vectors whose lengths may be symbolic."""
        def length(x):
            if isinstance(x, SymVec) and not x.resolved:
                return x.n, x.all_items
            return len(x.items), x.items
        na, ia = length(a)
        nb, ib = length(b)
        res = False
        for k in range(0, min(len(ia), len(ib)) + 1):
            ca = (na == k) if not isinstance(na, int) else (na == k)
            cb = (nb == k) if not isinstance(nb, int) else (nb == k)
            if ca is False or cb is False:
                continue
            elems = True
            for i in range(k):
                elems = b_and(elems, self.eq_values(ia[i], ib[i], node))
                if elems is False:
                    break
            res = b_or(res, b_and(ca, cb, elems))
        return res

    def strip(self, v):
        v = self.deref(v)
        while isinstance(v, Rc):
            v = self.deref(v.inner)
        return v

    def lookup(self, name):
        for sc in reversed(self.scopes):
            if name in sc:
                return sc, True
        return None, False

    def branch(self, cond):
        cond = self.deref(cond)
        if isinstance(cond, Opaque):
            return self.ctx.choose_free(2, f"branch on {cond.label}") == 0
        return self.ctx.branch(cond)

    # ------------------------------------------------------------ int domain
    def coerce_pair(self, a, b, node):
        if isinstance(a, int) and not isinstance(a, bool) and isinstance(b, Int):
            a = Int(a, b.w, b.s)
        elif isinstance(b, int) and not isinstance(b, bool) and isinstance(a, Int):
            b = Int(b, a.w, a.s)
        if isinstance(a, int) and isinstance(b, float):
            a = float(a)
        if isinstance(a, Float) and isinstance(b, (float, int)):
            b = Float(b)
        if isinstance(b, Float) and isinstance(a, (float, int)):
            a = Float(a)
        if isinstance(a, Int) and isinstance(b, Int) and (a.w != b.w):
            self.unsupported(f"mixed int widths {a.ty()} {b.ty()}", node)
        return a, b

    def arith(self, op, a, b, node):
        a, b = self.deref(a), self.deref(b)
        if isinstance(a, Opaque) or isinstance(b, Opaque):
            return self.havoc("arith-on-opaque")
        a, b = self.coerce_pair(a, b, node)
        if isinstance(a, int) and isinstance(b, int) and not isinstance(a, bool):
            # untyped literals: python arithmetic
            if op == "+":
                return a + b
            if op == "-":
                return a - b
            if op == "*":
                return a * b
            if op == "/":
                return int(a / b)
            if op == "%":
                return a - int(a / b) * b
            if op == "&":
                return a & b
            if op == "|":
                return a | b
            if op == "^":
                return a ^ b
            if op == "<<":
                return a << b
            if op == ">>":
                return a >> b
        if isinstance(a, Float) and isinstance(b, Float):
            rm = z3.RNE()
            if op == "+":
                return Float(z3.fpAdd(rm, a.v, b.v))
            if op == "-":
                return Float(z3.fpSub(rm, a.v, b.v))
            if op == "*":
                return Float(z3.fpMul(rm, a.v, b.v))
            if op == "/":
                return Float(z3.fpDiv(rm, a.v, b.v))
            self.unsupported(f"float op {op}", node)
        if isinstance(a, Char) or isinstance(b, Char):
            self.unsupported("arith on char", node)
        if not (isinstance(a, Int) and isinstance(b, Int)):
            self.unsupported(f"arith {op} on {type(a).__name__},{type(b).__name__}", node)
        w, s = a.w, a.s
        az, bz = a.z(), b.z()
        dev = self.profile == "dev"
        if op == "+":
            if dev:
                ovf = z3.Not(z3.And(z3.BVAddNoOverflow(az, bz, s), z3.BVAddNoUnderflow(az, bz) if s else True))
                if self.branch(simp(ovf)):
                    self.panic("overflow", node, "attempt to add with overflow")
            return int_from_z(az + bz, w, s)
        if op == "-":
            if dev:
                ovf = z3.Not(z3.And(z3.BVSubNoOverflow(az, bz) if s else True, z3.BVSubNoUnderflow(az, bz, s)))
                if self.branch(simp(ovf)):
                    self.panic("overflow", node, "attempt to subtract with overflow")
            return int_from_z(az - bz, w, s)
        if op == "*":
            if dev:
                ovf = z3.Not(z3.And(z3.BVMulNoOverflow(az, bz, s), z3.BVMulNoUnderflow(az, bz) if s else True))
                if self.branch(simp(ovf)):
                    self.panic("overflow", node, "attempt to multiply with overflow")
            return int_from_z(az * bz, w, s)
        if op in ("/", "%"):
            if self.branch(simp(bz == 0)):
                self.panic("div-by-zero", node, "attempt to divide by zero" if op == "/" else
                           "attempt to calculate the remainder with a divisor of zero")
            if s:
                mn = z3.BitVecVal(1 << (w - 1), w)
                if self.branch(simp(z3.And(az == mn, bz == z3.BitVecVal(-1, w)))):
                    self.panic("overflow", node, "attempt to divide with overflow" if op == "/" else
                               "attempt to calculate the remainder with overflow")
                return int_from_z(az / bz if op == "/" else z3.SRem(az, bz), w, s)
            return int_from_z(z3.UDiv(az, bz) if op == "/" else z3.URem(az, bz), w, s)
        if op == "&":
            return int_from_z(az & bz, w, s)
        if op == "|":
            return int_from_z(az | bz, w, s)
        if op == "^":
            return int_from_z(az ^ bz, w, s)
        if op in ("<<", ">>"):
            if dev and self.branch(simp(z3.UGE(bz, z3.BitVecVal(w, w)))):
                self.panic("overflow", node, "attempt to shift with overflow")
            bm = bz & z3.BitVecVal(w - 1, w)
            if op == "<<":
                return int_from_z(az << bm, w, s)
            return int_from_z((az >> bm) if s else z3.LShR(az, bm), w, s)
        self.unsupported(f"int op {op}", node)

    def compare(self, op, a, b, node):
        a, b = self.deref(a), self.deref(b)
        if isinstance(a, Opaque) or isinstance(b, Opaque):
            return self.havoc("compare-on-opaque")
        a, b = self.coerce_pair(a, b, node)
        if isinstance(a, (int, float)) and isinstance(b, (int, float)):
            return {"<": a < b, "<=": a <= b, ">": a > b, ">=": a >= b}[op]
        if isinstance(a, Float) and isinstance(b, Float):
            f = {"<": z3.fpLT, "<=": z3.fpLEQ, ">": z3.fpGT, ">=": z3.fpGEQ}[op]
            return simp(f(a.v, b.v))
        if isinstance(a, Char) and isinstance(b, Char):
            a, b = Int(a.v, 32, False), Int(b.v, 32, False)
        if isinstance(a, Int) and isinstance(b, Int):
            if a.conc and b.conc:
                return {"<": a.v < b.v, "<=": a.v <= b.v, ">": a.v > b.v, ">=": a.v >= b.v}[op]
            az, bz = a.z(), b.z()
            if a.s:
                r = {"<": az < bz, "<=": az <= bz, ">": az > bz, ">=": az >= bz}[op]
            else:
                r = {"<": z3.ULT(az, bz), "<=": z3.ULE(az, bz), ">": z3.UGT(az, bz), ">=": z3.UGE(az, bz)}[op]
            r = simp(r)
            return bool(z3.is_true(r)) if (z3.is_true(r) or z3.is_false(r)) else r
        self.unsupported(f"compare {op} on {type(a).__name__},{type(b).__name__}", node)

    def cast(self, v, tyj, node):
        v = self.deref(v)
        t = tyj["s"].replace(" ", "")
        if isinstance(v, Opaque):
            return v
        if t in INT_TYPES:
            w, s = INT_TYPES[t]
            if isinstance(v, bool):
                return Int(1 if v else 0, w, s)
            if isinstance(v, int):
                return Int(v, w, s)
            if isinstance(v, Char):
                v = Int(v.v, 32, False)
            if is_z3bool(v):
                return int_from_z(z3.If(v, z3.BitVecVal(1, w), z3.BitVecVal(0, w)), w, s)
            if isinstance(v, Int):
                if v.conc:
                    return Int(v.v, w, s)
                if w == v.w:
                    return Int(v.v, w, s)
                if w < v.w:
                    return int_from_z(z3.Extract(w - 1, 0, v.v), w, s)
                ext = z3.SignExt if v.s else z3.ZeroExt
                return int_from_z(ext(w - v.w, v.v), w, s)
            if isinstance(v, Float):
                return self.havoc("float-to-int-cast")
        if t in ("f64", "f32"):
            if isinstance(v, Int):
                z = v.z()
                return Float(z3.fpSignedToFP(z3.RNE(), z, z3.Float64()) if v.s else
                             z3.fpUnsignedToFP(z3.RNE(), z, z3.Float64()))
            if isinstance(v, (int, float)):
                return Float(float(v))
            if isinstance(v, Float):
                return v
        if t == "char":
            if isinstance(v, Int):
                return Char(v.v if v.conc else z3.ZeroExt(32 - v.w, v.v) if v.w < 32 else v.v)
        self.unsupported(f"cast to {t} of {type(v).__name__}", node)

    # -------------------------------------------------------------- equality
    def eq_values(self, a, b, node=None):
        while isinstance(a, Ref):
            a = a.get()
        while isinstance(b, Ref):
            b = b.get()
        if (isinstance(a, SymVec) and not a.resolved and isinstance(b, Vec)) or \
                (isinstance(b, SymVec) and not b.resolved and isinstance(a, Vec)):
            return self.symvec_eq(a, b, node)
        a, b = self.deref(a), self.deref(b)
        if isinstance(a, Opaque) or isinstance(b, Opaque):
            return self.havoc("eq-on-opaque")
        if isinstance(a, Rc) and isinstance(b, Rc):
            inner_ty = self.type_name(self.deref(a.inner))
            if a.ident == b.ident and inner_ty in self.p.eq_types:
                return True  # std: impl<T: Eq> PartialEq for Rc<T> short-circuits on ptr_eq
            return self.eq_values(a.inner, b.inner, node)
        if isinstance(a, Rc):
            a = a.inner
        if isinstance(b, Rc):
            b = b.inner
        a, b = self.deref(a), self.deref(b)
        if isinstance(a, bool) or is_z3bool(a):
            if isinstance(a, bool) and isinstance(b, bool):
                return a == b
            return simp(to_z3bool(a) == to_z3bool(b))
        a, b = self.coerce_pair(a, b, node)
        if isinstance(a, (int, float)) and isinstance(b, (int, float)):
            return a == b
        if isinstance(a, Int) and isinstance(b, Int):
            if a.conc and b.conc:
                return a.v == b.v
            r = simp(a.z() == b.z())
            return r
        if isinstance(a, Float) and isinstance(b, Float):
            return simp(z3.fpEQ(a.v, b.v))
        if isinstance(a, Char) and isinstance(b, Char):
            if a.conc and b.conc:
                return a.v == b.v
            return simp(a.z() == b.z())
        if isinstance(a, Str) and isinstance(b, Str):
            return self.str_eq(a, b)
        if isinstance(a, str) and isinstance(b, Str):
            return self.str_eq(Str(a), b)
        if isinstance(a, Str) and isinstance(b, str):
            return self.str_eq(a, Str(b))
        if isinstance(a, tuple) and isinstance(b, tuple):
            if len(a) != len(b):
                return False
            return b_and(*[self.eq_values(x, y, node) for x, y in zip(a, b)])
        if isinstance(a, Vec) and isinstance(b, Vec):
            if len(a.items) != len(b.items):
                return False
            res = True
            for x, y in zip(a.items, b.items):
                res = b_and(res, self.eq_values(x, y, node))
                if res is False:
                    return False
            return res
        if isinstance(a, Map) and isinstance(b, Map):
            return self.map_eq(a, b, node)
        ta, tb = self.type_name(a), self.type_name(b)
        if ta is not None and ta == tb:
            if (ta, "eq") in self.p.methods:
                return self.call_user(self.p.methods[(ta, "eq")], [a, b], ta)
            return self.derived_eq(a, b, node)
        self.unsupported(f"eq on {type(a).__name__},{type(b).__name__} ({ta},{tb})", node)

    def derived_eq(self, a, b, node):
        if isinstance(a, Struct) and isinstance(b, Struct):
            res = True
            keys = list(a.fields.keys())
            if a.partial or b.partial:
                keys = [k for k in keys if k in b.fields]
                if set(a.fields) != set(b.fields):
                    res = self.havoc("eq-on-partial-struct")
            for k in keys:
                res = b_and(res, self.eq_values(a.fields[k], b.fields[k], node))
                if res is False:
                    return False
            return res
        if isinstance(a, Enum) and isinstance(b, Enum):
            if a.variant != b.variant:
                return False
            return self.fields_eq(a.fields, b.fields, node)
        if isinstance(a, SymEnum) or isinstance(b, SymEnum):
            # merged (fork-free) structural equality over templates
            res = False
            va = a.variants if isinstance(a, SymEnum) else [a.variant]
            vb = b.variants if isinstance(b, SymEnum) else [b.variant]
            for v in va:
                if v not in vb:
                    continue
                ca = (a.tag == a.variants.index(v)) if isinstance(a, SymEnum) else True
                cb = (b.tag == b.variants.index(v)) if isinstance(b, SymEnum) else True
                fa = a.fields_for(v) if isinstance(a, SymEnum) else a.fields
                fb = b.fields_for(v) if isinstance(b, SymEnum) else b.fields
                res = b_or(res, b_and(ca, cb, self.fields_eq(fa, fb, node)))
            return res
        self.unsupported("derived_eq", node)

    def fields_eq(self, fa, fb, node):
        if isinstance(fa, dict):
            res = True
            for k in fa:
                res = b_and(res, self.eq_values(fa[k], fb[k], node))
                if res is False:
                    return False
            return res
        if len(fa) != len(fb):
            return False
        res = True
        for x, y in zip(fa, fb):
            res = b_and(res, self.eq_values(x, y, node))
            if res is False:
                return False
        return res

    def str_eq(self, a, b):
        if isinstance(a, AtomStr) or isinstance(b, AtomStr):
            if isinstance(a, AtomStr) and isinstance(b, AtomStr):
                if a.table != b.table:
                    self.unsupported("comparison of atoms over different tables")
                return simp(a.atom == b.atom)
            at, other = (a, b) if isinstance(a, AtomStr) else (b, a)
            if other.conc:
                return simp(at.atom == at.table.index(other.s)) if other.s in at.table else False
            self.unsupported("atom string compared with a symbolic string")
        if a.s is None or b.s is None:
            return self.havoc("eq-on-unknown-string")
        if a.conc and b.conc:
            return a.s == b.s
        ca, cb = a.chars(), b.chars()
        if len(ca) != len(cb):
            return False
        return b_and(*[self.eq_values(x, y) for x, y in zip(ca, cb)])

    def map_eq(self, a, b, node):
        # set-of-pairs equality for maps with pairwise-distinct keys (model of HashMap/HashTrieMap ==)
        na, nb = getattr(a, "n", None), getattr(b, "n", None)
        if na is not None or nb is not None:
            # maps with a symbolic number of live entries (a prefix of all_entries): merged over the sizes
            ea = a.all_entries if na is not None else a.entries
            eb = b.all_entries if nb is not None else b.entries
            res = False
            for k in range(0, min(len(ea), len(eb)) + 1):
                ca = (na == k) if na is not None else (len(ea) == k)
                cb = (nb == k) if nb is not None else (len(eb) == k)
                if ca is False or cb is False:
                    continue
                inner = True
                for ka, va in ea[:k]:
                    found = False
                    for kb, vb in eb[:k]:
                        found = b_or(found, b_and(self.eq_values(ka, kb, node), self.eq_values(va, vb, node)))
                    inner = b_and(inner, found)
                res = b_or(res, b_and(ca, cb, inner))
            return res
        if len(a.entries) != len(b.entries):
            return False
        res = True
        for ka, va in a.entries:
            found = False
            for kb, vb in b.entries:
                found = b_or(found, b_and(self.eq_values(ka, kb, node), self.eq_values(va, vb, node)))
            res = b_and(res, found)
        return res

    def type_name(self, v):
        if isinstance(v, Struct):
            return v.name
        if isinstance(v, (Enum, SymEnum)):
            return v.ty
        return None

    # ----------------------------------------------------------------- clone
    def clone(self, v):
        while isinstance(v, Ref):
            v = v.get()
        if isinstance(v, SymVec) and not v.resolved:
            return v   # template vectors are immutable: cloning does not need their length
        v = self.deref(v)
        if isinstance(v, Struct):
            s = Struct(v.name, {k: self.clone(x) for k, x in v.fields.items()}, v.partial)
            return s
        if isinstance(v, SymVec) and not v.resolved:
            return v   # template vectors are immutable
        if isinstance(v, AtomStr):
            return v
        if isinstance(v, Vec):
            return Vec([self.clone(x) for x in v.items], v.kind)
        if isinstance(v, Map):
            return Map([(self.clone(k), self.clone(x)) for k, x in v.entries])
        if isinstance(v, Str):
            return Str(v.s if (v.conc or v.s is None) else list(v.s))
        if isinstance(v, tuple):
            return tuple(self.clone(x) for x in v)
        if isinstance(v, Enum):
            if isinstance(v.fields, dict):
                return Enum(v.ty, v.variant, {k: self.clone(x) for k, x in v.fields.items()})
            return Enum(v.ty, v.variant, [self.clone(x) for x in v.fields])
        return v  # Int, bool, Rc (shared), Opaque, SymEnum (immutable), closures

    # ------------------------------------------------------------- patterns
    def is_unit_variant_name(self, name):
        if name == "None":
            return ("Option", "None")
        if name in self.p.glob_variants:
            en = self.p.glob_variants[name]
            v = self.p.variant(en, name)
            if v and v["fields"]["kind"] == "unit":
                return (en, name)
        return None

    def resolve_variant_path(self, segs):
        """-> (enum, variant) or None"""
        if len(segs) >= 2:
            en, vn = segs[-2], segs[-1]
            if en == "Self" and self.fn.self_ty:
                en = self.fn.self_ty
            if en in self.p.enums and self.p.variant(en, vn):
                return (en, vn)
            if en == "Option" and vn in ("Some", "None"):
                return ("Option", vn)
            if en == "Result" and vn in ("Ok", "Err"):
                return ("Result", vn)
            if en == "Entry" and vn in ("Occupied", "Vacant"):
                return ("Entry", vn)
        if len(segs) == 1:
            n = segs[0]
            if n in ("Some", "None"):
                return ("Option", n)
            if n in ("Ok", "Err"):
                return ("Result", n)
            if n in self.p.glob_variants:
                return (self.p.glob_variants[n], n)
        return None

    def variant_cond(self, v, enum, variant):
        """Condition that value v is `enum::variant`; -> (cond, fields)."""
        v = self.deref(v)
        if isinstance(v, Rc):
            # patterns see through Rc only via explicit deref; tolerate Box-like
            v = self.deref(v.inner)
        if isinstance(v, Opaque):
            return self.havoc(f"match-on-opaque:{v.label}"), None
        if isinstance(v, SymEnum):
            known = self.ctx.known_tags.get(v.id)
            if known is not None:
                if known != variant:
                    return False, None
                return True, v.fields_for(variant)
            if variant not in v.variants:
                return False, None
            # lazy two-way split: is the tag this variant or not (the tag stays symbolic otherwise)
            if self.ctx.branch(v.tag == v.variants.index(variant)):
                self.ctx.known_tags[v.id] = variant
                return True, v.fields_for(variant)
            return False, None
        if isinstance(v, Enum):
            if v.variant != variant:
                return False, None
            return True, v.fields
        self.unsupported(f"variant pattern {enum}::{variant} on {type(v).__name__} {v!r}"[:200])

    def match_pat(self, pat, v, binds, node=None):
        k = pat["k"]
        if k == "wild" or k == "rest":
            return True
        if k == "ident":
            name = pat["name"]
            uv = self.is_unit_variant_name(name)
            if uv and not pat["mut"] and not pat["by_ref"]:
                cond, _ = self.variant_cond(v, *uv)
                return cond
            if name in self.p.consts and name.isupper():
                return self.eq_values(v, self.eval_const(name), pat)
            if pat["sub"] is not None:
                c = self.match_pat(pat["sub"], v, binds, node)
                binds[name] = v
                return c
            binds[name] = v
            return True
        if k == "typed":
            return self.match_pat(pat["pat"], v, binds, node)
        if k == "ref":
            return self.match_pat(pat["pat"], self.deref(v), binds, node)
        if k == "lit":
            lit = self.eval_lit(pat["lit"])
            return self.eq_values(self.deref(v), lit, pat)
        if k == "range":
            lo = self.eval_expr(pat["start"]) if pat["start"] else None
            hi = self.eval_expr(pat["end"]) if pat["end"] else None
            c = True
            if lo is not None:
                c = b_and(c, self.compare(">=", v, lo, pat))
            if hi is not None:
                c = b_and(c, self.compare("<=" if pat["inclusive"] else "<", v, hi, pat))
            return c
        if k == "tuple":
            v = self.deref(v)
            if isinstance(v, Opaque):
                for e in pat["elems"]:
                    self.match_pat(e, self.havoc(v.label + ".elem"), binds, node)
                return True
            if not isinstance(v, tuple):
                self.unsupported(f"tuple pattern on {type(v).__name__}", node)
            elems = pat["elems"]
            if len(elems) != len(v):
                self.unsupported("tuple pattern arity", node)
            c = True
            for e, x in zip(elems, v):
                c = b_and(c, self.match_pat(e, x, binds, node))
                if c is False:
                    return False
            return c
        if k == "or":
            # Or-patterns in the subset never bind differently per case.
            c = False
            for case in pat["cases"]:
                c = b_or(c, self.match_pat(case, v, binds, node))
                if c is True:
                    return True
            return c
        if k == "path":
            segs = pat["path"]["segs"]
            rv = self.resolve_variant_path(segs)
            if rv:
                cond, _ = self.variant_cond(v, *rv)
                return cond
            cv = self.eval_path(segs, pat)
            return self.eq_values(v, cv, pat)
        if k == "tuple_struct":
            segs = pat["path"]["segs"]
            rv = self.resolve_variant_path(segs)
            if rv:
                cond, fields = self.variant_cond(v, *rv)
                if cond is False:
                    return False
                if fields is None:  # opaque
                    for e in pat["elems"]:
                        self.match_pat(e, self.havoc("opaque-field"), binds, node)
                    return cond
                return b_and(cond, self.match_seq(pat["elems"], fields, binds, node))
            # tuple struct
            sv = self.deref(v)
            if isinstance(sv, Rc):
                sv = self.deref(sv.inner)
            if isinstance(sv, Opaque):
                for e in pat["elems"]:
                    self.match_pat(e, self.havoc("opaque-field"), binds, node)
                return True
            if isinstance(sv, Struct):
                fields = [sv.fields[str(i)] for i in range(len(sv.fields))]
                return self.match_seq(pat["elems"], fields, binds, node)
            self.unsupported(f"tuple_struct pattern {segs} on {type(sv).__name__}", node)
        if k == "struct":
            segs = pat["path"]["segs"]
            rv = self.resolve_variant_path(segs)
            if rv:
                cond, fields = self.variant_cond(v, *rv)
                if cond is False:
                    return False
                c = cond
                for f in pat["fields"]:
                    fv = self.havoc("opaque-field") if fields is None else fields[f["member"]]
                    c = b_and(c, self.match_pat(f["pat"], fv, binds, node))
                return c
            sv = self.strip(v)
            if isinstance(sv, Opaque):
                for f in pat["fields"]:
                    self.match_pat(f["pat"], self.havoc("opaque-field"), binds, node)
                return True
            if isinstance(sv, Struct):
                c = True
                for f in pat["fields"]:
                    c = b_and(c, self.match_pat(f["pat"], self.get_field(sv, f["member"], pat), binds, node))
                return c
            self.unsupported(f"struct pattern on {type(sv).__name__}", node)
        if k == "slice":
            sv = self.strip(v)
            if isinstance(sv, IterV):
                sv = Vec(sv.items)
            if not isinstance(sv, Vec):
                self.unsupported(f"slice pattern on {type(sv).__name__}", node)
            elems = pat["elems"]
            rest_i = [i for i, e in enumerate(elems) if e["k"] == "rest" or (e["k"] == "ident" and e["sub"] and e["sub"]["k"] == "rest")]
            n = len(sv.items)
            if not rest_i:
                if n != len(elems):
                    return False
                return self.match_seq(elems, sv.items, binds, node)
            ri = rest_i[0]
            before, after = elems[:ri], elems[ri + 1:]
            if n < len(before) + len(after):
                return False
            c = self.match_seq(before, sv.items[:len(before)], binds, node)
            if after:
                c = b_and(c, self.match_seq(after, sv.items[n - len(after):], binds, node))
            if elems[ri]["k"] == "ident":
                binds[elems[ri]["name"]] = Vec(sv.items[len(before):n - len(after)])
            return c
        self.unsupported(f"pattern kind {k}: {pat.get('s', '')}", node)

    def match_seq(self, pats, vals, binds, node):
        vals = list(vals)
        if len(pats) != len(vals):
            if any(p["k"] == "rest" for p in pats):
                ri = [i for i, p in enumerate(pats) if p["k"] == "rest"][0]
                before, after = pats[:ri], pats[ri + 1:]
                c = self.match_seq(before, vals[:len(before)], binds, node)
                if after:
                    c = b_and(c, self.match_seq(after, vals[len(vals) - len(after):], binds, node))
                return c
            self.unsupported(f"pattern arity {len(pats)} vs {len(vals)}", node)
        c = True
        for p, x in zip(pats, vals):
            c = b_and(c, self.match_pat(p, x, binds, node))
            if c is False:
                return False
        return c

    # ------------------------------------------------------------- literals
    def eval_lit(self, l):
        t = l["t"]
        if t == "int":
            v = int(l["v"])
            if l.get("suffix"):
                w, s = INT_TYPES[l["suffix"]]
                return Int(v, w, s)
            return v
        if t == "bool":
            return l["v"]
        if t == "str":
            return Str(l["v"])
        if t == "char":
            return Char(l["v"])
        if t == "float":
            return Float(float(l["v"]))
        if t == "byte":
            return Int(l["v"], 8, False)
        self.unsupported(f"literal {t}")

    def eval_const(self, name):
        c = self.p.consts[name]
        saved = self.scopes
        self.scopes = [{}]
        try:
            v = self.eval_expr(c["e"])
        finally:
            self.scopes = saved
        ts = c["ty"]["s"].replace(" ", "")
        if ts in INT_TYPES and isinstance(v, int):
            v = Int(v, *INT_TYPES[ts])
        return v

    # ---------------------------------------------------------------- paths
    def eval_path(self, segs, node):
        if len(segs) == 1:
            n = segs[0]
            sc, found = self.lookup(n)
            if found:
                return sc[n]
            if n == "None":
                return NONE
            if n in ("Some", "Ok", "Err"):
                return FnRef("variant", ({"Some": "Option"}.get(n, "Result"), n), n)
            if n in self.p.consts:
                return self.eval_const(n)
            if n in self.natives:
                return FnRef("native", self.natives[n], n)
            if n in self.p.fns:
                return FnRef("user", self.p.fns[n], n)
            if n in self.p.glob_variants:
                en = self.p.glob_variants[n]
                v = self.p.variant(en, n)
                if v["fields"]["kind"] == "unit":
                    return Enum(en, n, [])
                return FnRef("variant", (en, n), n)
            if n in self.p.structs:
                return FnRef("struct", n, n)
            if n in self.p.statics:
                return Struct("LazyStatic", {"name": n, "e": self.p.statics[n]["e"]})
            if n == "Self" and self.fn.self_ty:
                return FnRef("struct", self.fn.self_ty, n)
            return FnRef("unknown", n, n)
        # multi-segment
        segs = [self.fn.self_ty if (s == "Self" and self.fn.self_ty) else s for s in segs]
        rv = self.resolve_variant_path(segs)
        if rv:
            en, vn = rv
            if en in ("Option", "Result", "Entry"):
                if vn == "None":
                    return NONE
                return FnRef("variant", rv, vn)
            v = self.p.variant(en, vn)
            if v["fields"]["kind"] == "unit":
                return Enum(en, vn, [])
            return FnRef("variant", rv, vn)
        ty, name = segs[-2], segs[-1]
        full = "::".join(segs)
        if full in self.natives:
            return FnRef("native", self.natives[full], full)
        if f"{ty}::{name}" in self.natives:
            return FnRef("native", self.natives[f"{ty}::{name}"], f"{ty}::{name}")
        if (ty, name) in self.p.methods:
            return FnRef("user", self.p.methods[(ty, name)], f"{ty}::{name}", self_ty=ty)
        if f"{ty}::{name}" in self.p.consts:
            return self.eval_const(f"{ty}::{name}")
        if ty in INT_TYPES:
            w, s = INT_TYPES[ty]
            if name == "MAX":
                return Int((1 << (w - 1)) - 1 if s else (1 << w) - 1, w, s)
            if name == "MIN":
                return Int(-(1 << (w - 1)) if s else 0, w, s)
            if name == "BITS":
                return Int(w, 32, False)
        if ty == "f64":
            if name == "NAN":
                return Float(z3.fpNaN(z3.Float64()))
            if name == "INFINITY":
                return Float(z3.fpPlusInfinity(z3.Float64()))
            if name == "NEG_INFINITY":
                return Float(z3.fpMinusInfinity(z3.Float64()))
            consts = {"EPSILON": 2.220446049250313e-16, "MAX": 1.7976931348623157e308, "MIN": -1.7976931348623157e308,
                      "MIN_POSITIVE": 2.2250738585072014e-308}
            if name in consts:
                return Float(z3.FPVal(consts[name], z3.Float64()))
        if name in self.p.fns and ty not in self.p.structs and ty not in self.p.enums:
            # module-qualified free function, e.g. crate::eval::foo
            return FnRef("user", self.p.fns[name], name)
        return FnRef("std", (ty, name), full)

    # ------------------------------------------------------------- places
    def eval_place(self, e):
        """-> (getter, setter)"""
        k = e["k"]
        if k == "path":
            segs = e["path"]["segs"]
            if len(segs) == 1:
                n = segs[0]
                sc, found = self.lookup(n)
                if found:
                    cur = sc[n]
                    if isinstance(cur, Ref):
                        return cur.get, cur.set

                    def setter(v, sc=sc, n=n):
                        sc[n] = v
                    return (lambda sc=sc, n=n: sc[n]), setter
            self.unsupported(f"place path {segs}", e)
        if k == "field":
            base = self.eval_expr(e["e"])
            b = self.strip(base)
            m = e["member"]
            if isinstance(b, Opaque):
                return (lambda: self.havoc(b.label + "." + m)), (lambda v: None)
            if isinstance(b, Struct):
                def getter(b=b, m=m):
                    return self.get_field(b, m, e)

                def setter(v, b=b, m=m):
                    b.fields[m] = v
                return getter, setter
            if isinstance(b, tuple):
                self.unsupported("assignment to tuple field", e)
            self.unsupported(f"field place on {type(b).__name__}", e)
        if k == "index":
            base = self.strip(self.eval_expr(e["e"]))
            idx = self.eval_expr(e["idx"])
            if isinstance(base, Opaque):
                return (lambda: self.havoc("index-opaque")), (lambda v: None)
            if isinstance(base, Vec):
                i = self.index_of(base, idx, e)
                return (lambda: base.items[i]), (lambda v: base.items.__setitem__(i, v))
            self.unsupported(f"index place on {type(base).__name__}", e)
        if k == "unary" and e["op"] == "*":
            inner = self.eval_expr(e["e"])
            if isinstance(inner, Ref):
                return inner.get, inner.set
            obj = self.deref(inner)
            if isinstance(obj, (Struct, Vec, Str, Map)):
                def setter(v, obj=obj):
                    self.assign_into(obj, v, e)
                return (lambda: obj), setter
            self.unsupported(f"deref place of {type(inner).__name__}", e)
        self.unsupported(f"place kind {k}", e)

    def assign_into(self, obj, v, node):
        v = self.deref(v)
        if isinstance(obj, Struct) and isinstance(v, Struct):
            obj.name, obj.fields, obj.partial = v.name, v.fields, v.partial
        elif isinstance(obj, Vec) and isinstance(v, Vec):
            obj.items = v.items
        elif isinstance(obj, Str) and isinstance(v, Str):
            obj.s = v.s
        elif isinstance(obj, Map) and isinstance(v, Map):
            obj.entries = v.entries
        else:
            self.unsupported("assign through reference", node)

    def get_field(self, b, m, node):
        if m in b.fields:
            return b.fields[m]
        if b.partial:
            v = self.havoc(f"{b.name}.{m}")
            b.fields[m] = v
            return v
        self.unsupported(f"no field {m} on {b.name}", node)

    def index_of(self, vec, idx, node):
        idx = self.deref(idx)
        n = len(vec.items)
        if isinstance(idx, Opaque):
            self.unsupported("opaque index", node)
        if isinstance(idx, int):
            if idx < 0 or idx >= n:
                self.panic("index-oob", node, f"index {idx} out of bounds (len {n})")
            return idx
        if idx.conc:
            if idx.v < 0 or idx.v >= n:
                self.panic("index-oob", node, f"index {idx.v} out of bounds (len {n})")
            return idx.v
        inb = z3.ULT(idx.v, z3.BitVecVal(n, idx.w)) if n > 0 else z3.BoolVal(False)
        if not self.branch(simp(inb)):
            self.panic("index-oob", node, f"symbolic index out of bounds (len {n})")
        return self.ctx.concretize_int(idx, 0, n - 1)

    # ---------------------------------------------------------- statements
    def eval_block(self, b, new_scope=True):
        if new_scope:
            self.scopes.append({})
        try:
            last = UNIT
            stmts = b["stmts"]
            for i, s in enumerate(stmts):
                k = s["k"]
                if k == "let":
                    self.exec_let(s)
                    last = UNIT
                elif k == "expr":
                    v = self.eval_expr(s["e"])
                    last = UNIT if s["semi"] else v
                    if i < len(stmts) - 1 and not s["semi"]:
                        last = UNIT
                elif k == "item":
                    it = s["item"]
                    if it["k"] == "fn":
                        self.scopes[-1][it["name"]] = FnRef("user", dict(it, file=self.fn.name), it["name"])
                    elif it["k"] in ("thread_local", "use", "const", "item_macro", "struct", "enum"):
                        if it["k"] == "const":
                            self.scopes[-1][it["name"]] = self.eval_expr(it["e"])
                    else:
                        self.unsupported(f"nested item {it['k']}", s)
                    last = UNIT
            return last
        finally:
            if new_scope:
                self.scopes.pop()

    def exec_let(self, s):
        if s["init"] is None:
            # declared, assigned later
            self.bind_decl(s["pat"])
            return
        v = self.eval_expr(s["init"])
        if s["ty"] is not None:
            v = self.apply_type(v, s["ty"])
        binds = {}
        cond = self.match_pat(s["pat"], v, binds, s)
        if s["else"] is not None:
            if self.branch(cond):
                self.scopes[-1].update(binds)
            else:
                self.eval_expr(s["else"])
                self.unsupported("let-else fell through", s)
        else:
            if cond is not True:
                # irrefutable by rustc; symbolic cond can only come from opaque values
                if not isinstance(cond, Opaque):
                    self.unsupported("refutable let without else", s)
            self.scopes[-1].update(binds)

    def bind_decl(self, pat):
        if pat["k"] == "ident":
            self.scopes[-1][pat["name"]] = None
        elif pat["k"] == "typed":
            self.bind_decl(pat["pat"])
        else:
            self.unsupported("let without init and complex pattern")

    def apply_type(self, v, tyj):
        t = tyj["s"].replace(" ", "")
        if t in INT_TYPES and isinstance(v, int) and not isinstance(v, bool):
            return Int(v, *INT_TYPES[t])
        if t == "f64" and isinstance(v, (int, float)):
            return Float(float(v))
        return v

    # --------------------------------------------------------- expressions
    def eval_expr(self, e):
        k = e["k"]
        m = getattr(self, "e_" + k, None)
        if m is None:
            self.unsupported(f"expression kind {k}: {e.get('s', '')[:80]}", e)
        return m(e)

    def e_lit(self, e):
        return self.eval_lit(e)

    def e_path(self, e):
        return self.eval_path(e["path"]["segs"], e)

    def e_block(self, e):
        if e.get("label"):
            try:
                return self.eval_block(e)
            except BreakEx as b:
                if b.label == e["label"]:
                    return b.value if b.value is not None else UNIT
                raise
        return self.eval_block(e)

    def e_tuple(self, e):
        return tuple(self.eval_expr(x) for x in e["elems"])

    def e_array(self, e):
        return Vec([self.eval_expr(x) for x in e["elems"]], "array")

    def e_ref(self, e):
        inner = e["e"]
        if e["mut"]:
            # &mut place: containers alias by python identity; scalars get a Ref cell
            v = self.eval_expr(inner) if inner["k"] not in ("path", "field", "index") else None
            if v is None:
                g, s = self.eval_place(inner)
                cur = g()
                if isinstance(cur, Ref):
                    return cur
                if isinstance(self.deref(cur), (Struct, Vec, Str, Map)):
                    return self.deref(cur)
                return Ref(g, s)
            return v
        return self.eval_expr(inner)

    def e_unary(self, e):
        op = e["op"]
        if op == "*":
            v = self.eval_expr(e["e"])
            v = self.deref(v)
            if isinstance(v, Rc):
                return self.deref(v.inner)
            return v
        v = self.deref(self.eval_expr(e["e"]))
        if op == "!":
            if isinstance(v, bool) or is_z3bool(v) or isinstance(v, Opaque):
                return b_not(v)
            if isinstance(v, Int):
                return int_from_z(~v.z(), v.w, v.s)
            if isinstance(v, int):
                return ~v
        if op == "-":
            if isinstance(v, int):
                return -v
            if isinstance(v, float):
                return -v
            if isinstance(v, Int):
                return self.arith("-", Int(0, v.w, v.s), v, e)
            if isinstance(v, Float):
                return Float(z3.fpNeg(v.v))
            if isinstance(v, Opaque):
                return v
        self.unsupported(f"unary {op} on {type(v).__name__}", e)

    def e_binary(self, e):
        op = e["op"]
        if op == "&&":
            l = self.deref(self.eval_expr(e["lhs"]))
            if self.branch(l):
                return self.deref(self.eval_expr(e["rhs"]))
            return False
        if op == "||":
            l = self.deref(self.eval_expr(e["lhs"]))
            if self.branch(l):
                return True
            return self.deref(self.eval_expr(e["rhs"]))
        if op.endswith("=") and op not in ("==", "!=", "<=", ">="):
            bop = op[:-1]
            g, s = self.eval_place(e["lhs"])
            r = self.eval_expr(e["rhs"])
            cur = self.deref(g())
            if isinstance(cur, Str) and bop == "+":
                self.str_push_str(cur, r, e)
                return UNIT
            s(self.arith(bop, cur, r, e))
            return UNIT
        l = self.eval_expr(e["lhs"])
        r = self.eval_expr(e["rhs"])
        if op == "==":
            return self.eq_values(l, r, e)
        if op == "!=":
            return b_not(self.eq_values(l, r, e))
        if op in ("<", "<=", ">", ">="):
            return self.compare(op, l, r, e)
        l, r = self.deref(l), self.deref(r)
        if op in ("&", "|", "^") and (isinstance(l, bool) or is_z3bool(l)):
            if op == "&":
                return b_and(l, r)
            if op == "|":
                return b_or(l, r)
            return simp(z3.Xor(to_z3bool(l), to_z3bool(r)))
        return self.arith(op, l, r, e)

    def e_assign(self, e):
        if e["lhs"]["k"] == "path" and e["lhs"]["path"]["segs"] == ["_"]:
            self.eval_expr(e["rhs"])
            return UNIT
        v = self.eval_expr(e["rhs"])
        g, s = self.eval_place(e["lhs"])
        s(self.deref(v) if not isinstance(v, Ref) else v.get())
        return UNIT

    def e_cast(self, e):
        return self.cast(self.eval_expr(e["e"]), e["ty"], e)

    def e_field(self, e):
        base = self.eval_expr(e["e"])
        b = self.strip(base)
        m = e["member"]
        if isinstance(b, Opaque):
            return self.havoc(f"{b.label}.{m}")
        if isinstance(b, Struct):
            return self.get_field(b, m, e)
        if isinstance(b, tuple):
            return b[int(m)]
        self.unsupported(f"field .{m} on {type(b).__name__}", e)

    def e_index(self, e):
        base = self.strip(self.eval_expr(e["e"]))
        idx = self.eval_expr(e["idx"])
        if isinstance(base, Opaque):
            if OPAQUE_INDEX_MAY_PANIC and not isinstance(idx, RangeV) \
                    and self.ctx.choose_free(2, "index into an unmodelled collection") == 1:
                # `collection[i]` on data the encoder does not model (a type definition's variant list, ...): the bound is
                # not decided, so the panic is a candidate on a tainted path (confirmed natively or dropped)
                self.panic("index-oob", e, "index into an unmodelled collection may be out of bounds")
            return self.havoc("index-opaque")
        if isinstance(idx, RangeV):
            return self.slice_of(base, idx, e)
        if isinstance(base, IterV):
            base = Vec(base.items)
        if isinstance(base, Vec):
            if isinstance(self.deref(idx), Opaque):
                # index computed from unmodelled data: the element is havoc (bounds not decided; stated assumption)
                return self.havoc("index-by-opaque")
            return base.items[self.index_of(base, idx, e)]
        if isinstance(base, Map):
            r = self.map_get(base, idx, e)
            if r is None:
                self.panic("map-index", e, "key not found")
            return r
        self.unsupported(f"index on {type(base).__name__}", e)

    def slice_of(self, base, rng, node):
        if isinstance(base, Str):
            return self.str_slice(base, rng, node)
        if isinstance(base, Vec):
            n = len(base.items)
            lo = 0 if rng.start is None else self.conc_usize(rng.start, 0, n + 1, node)
            hi = n if rng.end is None else self.conc_usize(rng.end, 0, n + 1, node)
            if rng.inclusive:
                hi += 1
            if lo > hi or hi > n:
                self.panic("slice-oob", node, f"slice {lo}..{hi} out of range (len {n})")
            return Vec(base.items[lo:hi], "slice")
        self.unsupported(f"slice of {type(base).__name__}", node)

    def conc_usize(self, x, lo, hi, node):
        x = self.deref(x)
        if isinstance(x, int):
            return x
        if x.conc:
            return x.v
        inr = z3.ULE(x.v, z3.BitVecVal(hi, x.w))
        if not self.branch(simp(inr)):
            return hi + 1
        return self.ctx.concretize_int(x, lo, hi)

    def e_range(self, e):
        s = self.eval_expr(e["start"]) if e["start"] else None
        t = self.eval_expr(e["end"]) if e["end"] else None
        return RangeV(self.deref(s) if s is not None else None, self.deref(t) if t is not None else None,
                      e["inclusive"])

    def e_struct(self, e):
        segs = e["path"]["segs"]
        rv = self.resolve_variant_path(segs)
        fields = {f["member"]: self.eval_expr(f["e"]) for f in e["fields"]}
        fields = {k: (self.deref(v) if not isinstance(v, Ref) else v.get()) for k, v in fields.items()}
        if rv:
            return Enum(rv[0], rv[1], fields)
        name = segs[-1]
        if name == "Self":
            name = self.fn.self_ty
        if e["rest"] is not None:
            rest = self.strip(self.eval_expr(e["rest"]))
            if isinstance(rest, Struct):
                for k2, v2 in rest.fields.items():
                    fields.setdefault(k2, v2)
            else:
                return Struct(name, fields, partial=True)
        sd = self.p.structs.get(name)
        if sd and sd["fields"]["kind"] == "named":
            for fname, fty in zip(sd["fields"]["names"], sd["fields"]["types"]):
                if fname in fields:
                    fields[fname] = self.apply_type(fields[fname], fty)
        return Struct(name, fields)

    def e_if(self, e):
        cond_e = e["cond"]
        self.scopes.append({})
        try:
            c = self.deref(self.eval_expr(cond_e))
            if self.branch(c):
                return self.eval_block(e["then"])
        finally:
            self.scopes.pop()
        if e["else"] is not None:
            return self.eval_expr(e["else"])
        return UNIT

    def e_let_cond(self, e):
        v = self.eval_expr(e["e"])
        binds = {}
        c = self.match_pat(e["pat"], v, binds, e)
        self.scopes[-1].update(binds)
        return c

    def e_matches(self, e):
        v = self.eval_expr(e["e"])
        binds = {}
        c = self.match_pat(e["pat"], v, binds, e)
        if e["guard"] is not None:
            if self.branch(c):
                self.scopes.append(binds)
                try:
                    return self.deref(self.eval_expr(e["guard"]))
                finally:
                    self.scopes.pop()
            return False
        return c

    def e_match(self, e):
        v = self.eval_expr(e["e"])
        if isinstance(v, Ref):
            pass
        for arm in e["arms"]:
            binds = {}
            c = self.match_pat(arm["pat"], v, binds, arm)
            if c is False:
                continue
            if isinstance(c, Opaque) and arm is e["arms"][-1] and arm["guard"] is None:
                pass  # rustc checked exhaustiveness: an opaque scrutinee that reached the last arm takes it
            elif not self.branch(c):
                continue
            self.scopes.append(binds)
            try:
                if arm["guard"] is not None:
                    g = self.deref(self.eval_expr(arm["guard"]))
                    if not self.branch(g):
                        continue
                return self.eval_expr(arm["body"])
            finally:
                self.scopes.pop()
        self.unsupported("match fell through all arms (non-exhaustive in the model)", e)

    def e_return(self, e):
        v = self.eval_expr(e["e"]) if e["e"] is not None else UNIT
        dv = self.deref(v)
        if isinstance(dv, Enum) and dv.ty == "Result" and dv.variant == "Err" and self.err_origin is None:
            self.err_origin = (self.fn.name, e["line"])   # where this error was constructed (innermost return)
        raise ReturnEx(v)

    def e_break(self, e):
        v = self.eval_expr(e["e"]) if e["e"] is not None else None
        raise BreakEx(e["label"], v)

    def e_continue(self, e):
        raise ContinueEx(e["label"])

    def e_try(self, e):
        v = self.deref(self.eval_expr(e["e"]))
        if isinstance(v, Opaque):
            if self.branch(v):
                return self.havoc(v.label + "?ok")
            raise ReturnEx(self.havoc(v.label + "?err"))
        if isinstance(v, Enum):
            if v.ty == "Result":
                if v.variant == "Ok":
                    return v.fields[0]
                raise ReturnEx(v)
            if v.ty == "Option":
                if v.variant == "Some":
                    return v.fields[0]
                raise ReturnEx(NONE)
        self.unsupported(f"? on {type(v).__name__}", e)

    def run_loop(self, e, step):
        """step() -> False to stop. Handles break/continue/labels/unwinding."""
        label = e.get("label")
        n = 0
        while True:
            if n >= self.loop_bound:
                raise UnwindExceeded(f"loop at line {e['line']} in {self.fn.name} exceeded {self.loop_bound}")
            n += 1
            try:
                if not step():
                    return UNIT
            except BreakEx as b:
                if b.label is None or b.label == label:
                    return b.value if b.value is not None else UNIT
                raise
            except ContinueEx as c:
                if c.label is None or c.label == label:
                    continue
                raise

    def e_while(self, e):
        def step():
            self.scopes.append({})
            try:
                c = self.deref(self.eval_expr(e["cond"]))
                if not self.branch(c):
                    return False
                self.eval_block(e["body"])
                return True
            finally:
                self.scopes.pop()
        return self.run_loop(e, step)

    def e_loop(self, e):
        def step():
            self.eval_block(e["body"])
            return True
        return self.run_loop(e, step)

    def e_for(self, e):
        it = self.deref(self.eval_expr(e["iter"]))
        if isinstance(it, RangeV):
            return self.for_range(e, it)
        items = self.iter_items(it, e)
        state = {"i": 0}

        def step():
            if state["i"] >= len(items):
                return False
            x = items[state["i"]]
            state["i"] += 1
            binds = {}
            self.match_pat(e["pat"], x, binds, e)
            self.scopes.append(binds)
            try:
                self.eval_block(e["body"])
            finally:
                self.scopes.pop()
            return True
        return self.run_loop(e, step)

    def for_range(self, e, rng):
        cur = {"v": rng.start if rng.start is not None else 0}

        def step():
            c = self.compare("<=" if rng.inclusive else "<", cur["v"], rng.end, e)
            if not self.branch(c):
                return False
            x = cur["v"]
            cur["v"] = self.arith_nocheck_inc(x)
            binds = {}
            self.match_pat(e["pat"], x, binds, e)
            self.scopes.append(binds)
            try:
                self.eval_block(e["body"])
            finally:
                self.scopes.pop()
            return True
        return self.run_loop(e, step)

    def arith_nocheck_inc(self, x):
        if isinstance(x, int):
            return x + 1
        return int_from_z(x.z() + 1, x.w, x.s)

    def iter_items(self, it, node):
        it = self.strip(it)
        if isinstance(it, IterV):
            return it.items[it.pos:]
        if isinstance(it, Vec):
            return list(it.items)
        if isinstance(it, Map):
            return [(k, v) for k, v in it.entries]
        if isinstance(it, Enum) and it.ty == "Option":
            return list(it.fields)
        if isinstance(it, RangeV):
            lo = it.start if it.start is not None else 0
            lo_c = lo if isinstance(lo, int) else (lo.v if lo.conc else None)
            hi = it.end
            hi_c = hi if isinstance(hi, int) else (hi.v if hi.conc else None)
            if lo_c is None or hi_c is None:
                self.unsupported("iterator over symbolic range", node)
            if it.inclusive:
                hi_c += 1
            mk = (lambda i: i) if (isinstance(lo, int) and isinstance(hi, int)) else \
                (lambda i: Int(i, (hi if isinstance(hi, Int) else lo).w, (hi if isinstance(hi, Int) else lo).s))
            return [mk(i) for i in range(lo_c, hi_c)]
        if isinstance(it, Opaque):
            # havoc'd collection: 0..2 opaque elements (over-approximation, tainted)
            n = self.ctx.choose_free(3, f"length of opaque collection {it.label}")
            return [self.havoc(f"{it.label}[{i}]") for i in range(n)]
        self.unsupported(f"iteration over {type(it).__name__}", node)

    def e_closure(self, e):
        return Closure(e["params"], e["body"], list(self.scopes), self.fn)

    def e_macro(self, e):
        name = e["name"]
        args = e["args"]
        if name == "vec":
            return Vec([self.owned(self.eval_expr(a)) for a in (args or [])])
        if name == "vec_repeat":
            x = self.eval_expr(args[0])
            n = self.deref(self.eval_expr(args[1]))
            if isinstance(n, Opaque):
                n = self.ctx.choose_free(3, "length of vec![x; opaque]")
            n = n if isinstance(n, int) else self.ctx.concretize_int(n, 0, self.loop_bound)
            return Vec([self.clone(x) for _ in range(n)])
        if name in ("write", "writeln"):
            # formatting into an in-memory buffer / formatter: no machine-state effect, and it does not fail
            return ok(UNIT)
        if name in ("format", "msgtext", "msgcode", "concat", "stringify", "serde_json::json",
                    "include_str", "include_bytes", "env", "line", "file"):
            if name == "format" and getattr(self, "format_model", None) is not None and args \
                    and args[0].get("k") == "lit" and args[0].get("t") == "str":
                # a harness that studies the text itself (value printing) supplies a model of format!
                r = self.format_model(self, args[0]["v"], [self.eval_expr(a) for a in args[1:]], e)
                if r is not None:
                    return r
            if name in ("format", "msgtext", "msgcode") and args:
                # opaque text, but functional in the values it is built from
                sigs = []
                for a in args:
                    try:
                        sigs.append(self.arg_sig(self.eval_expr(a)))
                    except Unsupported:
                        sigs.append("?")
                self.havocs.add(name + "!")
                return Opaque(f"{name}!({', '.join(sigs)})")
            return self.havoc(name + "!")
        if name in ("println", "print", "eprintln", "eprint", "dbg", "log::info", "log::debug", "tracing::debug",
                    "debug", "info", "warn", "trace", "error"):
            return UNIT
        if name in ("assert", "debug_assert"):
            c = self.deref(self.eval_expr(args[0]))
            if not self.branch(c):
                self.panic("assert", e, "assertion failed")
            return UNIT
        if name in ("assert_eq", "debug_assert_eq"):
            c = self.eq_values(self.eval_expr(args[0]), self.eval_expr(args[1]), e)
            if not self.branch(c):
                self.panic("assert", e, "assert_eq failed")
            return UNIT
        if name in ("assert_ne", "debug_assert_ne"):
            c = self.eq_values(self.eval_expr(args[0]), self.eval_expr(args[1]), e)
            if self.branch(c):
                self.panic("assert", e, "assert_ne failed")
            return UNIT
        if name == "unreachable":
            self.panic("unreachable", e, "unreachable!()")
        if name == "panic":
            self.panic("panic", e, "panic!()")
        if name in ("todo", "unimplemented"):
            self.panic(name, e, name)
        self.unsupported(f"macro {name}!", e)

    def owned(self, v):
        return v.get() if isinstance(v, Ref) else v

    # ----------------------------------------------------------------- calls
    def e_call(self, e):
        f = self.eval_expr(e["f"])
        args = [self.eval_expr(a) for a in e["args"]]
        return self.apply(f, args, e)

    def apply(self, f, args, node):
        f = self.deref(f)
        if isinstance(f, Closure):
            return self.call_closure(f, args, node)
        if isinstance(f, Opaque):
            return self.havoc(f"call({f.label})")
        if not isinstance(f, FnRef):
            self.unsupported(f"call of {type(f).__name__}", node)
        if f.kind == "native":
            return f.target(self, args, node)
        if f.kind == "user":
            return self.call_user(f.target, args, f.self_ty or f.target.get("impl_ty"))
        if f.kind == "variant":
            en, vn = f.target
            return Enum(en, vn, [self.owned(a) for a in args])
        if f.kind == "struct":
            return Struct(f.target, {str(i): self.owned(a) for i, a in enumerate(args)})
        if f.kind == "std":
            from . import stdmodels
            return stdmodels.call_std_path(self, f.target, f.name, args, node)
        if f.kind == "unknown":
            from . import stdmodels
            return stdmodels.call_std_path(self, (None, f.target), f.name, args, node)
        self.unsupported(f"apply {f}", node)

    def arg_sig(self, a, depth=0):
        a = self.deref(a)
        if isinstance(a, Opaque):
            return a.label
        if isinstance(a, Rc):
            return f"rc#{a.ident}"
        if isinstance(a, Struct):
            if "0" in a.fields and isinstance(a.fields["0"], Rc):
                return f"{a.name}#{a.fields['0'].ident}"
            if depth < 2:
                return a.name + "{" + ",".join(f"{k}={self.arg_sig(v, depth + 1)}" for k, v in list(a.fields.items())[:4]) + "}"
            return a.name
        if isinstance(a, Str):
            return repr(a.s) if a.conc else "str"
        if isinstance(a, Int):
            return str(a.v) if a.conc else "int"
        if isinstance(a, (Enum, SymEnum)):
            return f"{a.ty}"
        if isinstance(a, (bool, int)):
            return str(a)
        return type(a).__name__

    def call_closure(self, c, args, node):
        saved_scopes, saved_fn = self.scopes, self.fn
        binds = {}
        if len(c.params) != len(args):
            if len(c.params) == 1 and len(args) > 1:
                args = [tuple(args)]
            else:
                self.unsupported("closure arity", node)
        self.scopes = list(c.scopes) + [binds]
        self.fn = c.fn_ctx
        try:
            for p, a in zip(c.params, args):
                self.match_pat(p, a, binds, node)
            try:
                return self.eval_expr(c.body)
            except ReturnEx as r:
                return r.value
        finally:
            self.scopes, self.fn = saved_scopes, saved_fn

    def call_user_body(self, fn, args, self_ty=None):
        """Execute the real body of `fn` even if a native override is registered for nested calls to it."""
        return self.call_user(fn, args, self_ty, skip_native=True)

    def call_user(self, fn, args, self_ty=None, skip_native=False):
        name = (self_ty + "::" if self_ty else "") + fn["name"]
        if name in self.natives and not skip_native:
            return self.natives[name](self, args, fn)
        if name in self.opaque_fns or fn["name"] in self.opaque_fns:
            # opaque but functional: the label records which arguments it was applied to
            return Opaque(f"{name}({', '.join(self.arg_sig(a) for a in args)})")
        self.called.add((name, fn.get("file"), fn["line"], fn["end_line"], fn["hash"]))
        if self.on_call is not None:
            self.on_call(name, args)
        if self.depth >= self.depth_bound:
            raise UnwindExceeded(f"recursion depth {self.depth_bound} exceeded calling {name}")
        params = fn["params"]
        has_self = fn["self"] is not None
        if len(args) != len(params) + (1 if has_self else 0):
            self.unsupported(f"arity calling {name}: {len(args)} args")
        saved_scopes, saved_fn = self.scopes, self.fn
        binds = {}
        self.scopes = [binds]
        self.fn = FnCtx(name, self_ty)
        self.depth += 1
        try:
            if has_self:
                sv = args[0]
                if fn["self"] in ("&", "val"):
                    sv = self.deref(sv)
                binds["self"] = sv
                rest = args[1:]
            else:
                rest = args
            for p, a in zip(params, rest):
                a = self.apply_type(a, p["ty"])
                if p["ty"]["k"] != "ref" or not p["ty"].get("mut"):
                    a = self.deref(a) if not isinstance(self.deref(a), (Int,)) or True else a
                self.match_pat(p["pat"], a, binds, fn)
            try:
                return self.eval_block(fn["body"], new_scope=True)
            except ReturnEx as r:
                return r.value
        finally:
            self.depth -= 1
            self.scopes, self.fn = saved_scopes, saved_fn

    def e_mcall(self, e):
        recv = self.eval_expr(e["recv"])
        args = [self.eval_expr(a) for a in e["args"]]
        return self.call_method(recv, e["method"], args, e)

    def call_method(self, recv, name, args, node):
        from . import stdmodels
        r = recv
        # harness-registered models of third-party methods, keyed "Type::method"
        tn0 = self.type_name(self.deref(recv))
        if tn0 and f"{tn0}::{name}" in self.natives and (tn0, name) not in self.p.methods:
            return self.natives[f"{tn0}::{name}"](self, [self.deref(recv)] + list(args), node)
        # auto-deref chain: Ref -> value; try user methods at each Rc layer
        hops = 0
        while True:
            hops += 1
            if hops > 10:
                self.unsupported("deref chain too long", node)
            if isinstance(r, Ref):
                inner = r.get()
                tn = self.type_name(inner)
                if tn and (tn, name) in self.p.methods and self.p.methods[(tn, name)]["self"] == "&mut" \
                        and not isinstance(inner, Struct):
                    return self.call_user(self.p.methods[(tn, name)], [r] + args, tn)
                # std methods that mutate scalars/options through a reference
                res = stdmodels.call_ref_method(self, r, name, args, node)
                if res is not stdmodels.NOT_HANDLED:
                    return res
                r = inner
                continue
            tn = self.type_name(r)
            if tn and (tn, name) in self.p.methods:
                return self.call_user(self.p.methods[(tn, name)], [r] + args, tn)
            if isinstance(r, Rc):
                res = stdmodels.call_rc_method(self, r, name, args, node)
                if res is not stdmodels.NOT_HANDLED:
                    return res
                r = r.inner
                continue
            break
        return stdmodels.call_method(self, r, name, args, node)

    # ------------------------------------------------------------- strings
    def str_push_str(self, s, other, node):
        from . import stdmodels
        stdmodels.str_push_str(self, s, other, node)

    def str_slice(self, s, rng, node):
        from . import stdmodels
        return stdmodels.str_slice(self, s, rng, node)

    def map_get(self, m, key, node):
        key = self.deref(key)
        for k, v in m.entries:
            c = self.eq_values(k, key, node)
            if self.branch(c):
                return v
        return None
