"""Models of the std / third-party vocabulary the encoded kernels use.

Every entry here is part of the trusted base of a check and is listed in the
evidence (`models_used`).  Anything not listed is havoc-with-taint.
"""
import z3

from .core import *  # noqa
from .interp import b_and, b_or, b_not, is_z3bool, to_z3bool

NOT_HANDLED = object()
USED = set()


def used(name):
    USED.add(name)


def _ite_int(c, a, b):
    return int_from_z(z3.If(c, a.z(), b.z()), a.w, a.s)


# ------------------------------------------------------------------ std paths

def call_std_path(I, target, full, args, node):
    ty, name = target
    a = [I.deref(x) if not isinstance(x, Ref) else x for x in args]
    key = f"{ty}::{name}" if ty else name
    if key in ("Rc::new", "Arc::new"):
        used(key)
        return Rc(I.owned(args[0]))
    if key in ("Rc::clone", "Arc::clone"):
        used(key)
        r = I.deref(args[0])
        return r
    if key in ("Rc::try_unwrap", "Rc::unwrap_or_clone", "Rc::into_inner"):
        # the value inside the Rc (whether it is moved out or cloned is not observable in this value model)
        used(key)
        r = I.deref(args[0])
        inner = r.inner if isinstance(r, Rc) else r
        if key == "Rc::try_unwrap":
            return ok(inner)
        if key == "Rc::into_inner":
            return some(inner)
        return inner
    if key == "Rc::ptr_eq":
        used(key)
        x, y = I.deref(args[0]), I.deref(args[1])
        if isinstance(x, Rc) and isinstance(y, Rc):
            return x.ident == y.ident
        return I.havoc("Rc::ptr_eq")
    if key in ("Box::new", "RefCell::new", "Cell::new", "Some", "Mutex::new"):
        used(key)
        return I.owned(args[0])
    if key in ("Vec::new", "Vec::with_capacity", "VecDeque::new"):
        used(key)
        return Vec([])
    if key in ("String::new", "String::with_capacity"):
        used(key)
        return Str("")
    if key in ("String::from",):
        used(key)
        return I.clone(I.deref(args[0]))
    if key in ("FxHashMap::default", "HashMap::new", "HashMap::default", "FxHashMap::new", "FxHashSet::default",
               "HashSet::new", "HashSet::default", "BTreeMap::new"):
        used(key)
        return Map([])
    if key in ("mem::take", "std::mem::take", "take"):
        used("std::mem::take")
        r = args[0]
        if isinstance(r, Ref):
            cur = r.get()
            r.set(default_like(I, cur, node))
            return cur
        cur = I.deref(r)
        if isinstance(cur, Vec):
            out = Vec(cur.items, cur.kind)
            cur.items = []
            return out
        if isinstance(cur, Str):
            out = Str(cur.s)
            cur.s = ""
            return out
        if isinstance(cur, Map):
            out = Map(cur.entries)
            cur.entries = []
            return out
        I.unsupported("mem::take on " + type(cur).__name__, node)
    if key in ("mem::swap", "std::mem::swap"):
        used("std::mem::swap")
        x, y = args
        if isinstance(x, Ref) and isinstance(y, Ref):
            vx, vy = x.get(), y.get()
            x.set(vy)
            y.set(vx)
            return UNIT
        I.unsupported("mem::swap", node)
    if key in ("mem::replace", "std::mem::replace"):
        used("std::mem::replace")
        r = args[0]
        if isinstance(r, Ref):
            cur = r.get()
            r.set(I.owned(args[1]))
            return cur
        I.unsupported("mem::replace", node)
    if key in ("ptr::eq", "std::ptr::eq"):
        used("std::ptr::eq")
        x, y = I.deref(args[0]), I.deref(args[1])
        if hasattr(x, "id") and hasattr(y, "id"):
            return x.id == y.id
        return I.havoc("ptr::eq")
    if key in ("cmp::max", "cmp::min", "std::cmp::max", "std::cmp::min") and len(a) == 2:
        used("std::cmp::" + name)
        return int_method(I, a[0], name, [a[1]], node)
    if key == "Default::default":
        return I.havoc("Default::default")
    if name == "default" and ty in I.p.structs:
        used("derive(Default)")
        return default_struct(I, ty, node)
    if key in ("drop",):
        return UNIT
    if key in ("usize::from", "i64::from", "u32::from", "u64::from") and isinstance(a[0], (Int, Char, int)):
        w, s = INT_TYPES[ty]
        v = a[0]
        if isinstance(v, Char):
            v = Int(v.v, 32, False)
        return I.cast(v, {"s": ty}, node)
    if key in ("char::from_u32",):
        used(key)
        v = a[0]
        z = v.z() if isinstance(v, Int) else z3.BitVecVal(v, 32)
        valid = z3.And(z3.ULE(z, 0x10FFFF), z3.Not(z3.And(z3.UGE(z, 0xD800), z3.ULE(z, 0xDFFF))))
        if I.branch(simp(valid)):
            return some(Char(v.v if isinstance(v, Int) else v))
        return NONE
    I.havocs.add(full)
    I.std_calls.append(full)
    return Opaque(full + "()")


def default_like(I, cur, node):
    cur = I.deref(cur)
    if isinstance(cur, Vec):
        return Vec([])
    if isinstance(cur, Str):
        return Str("")
    if isinstance(cur, Map):
        return Map([])
    if isinstance(cur, Enum) and cur.ty == "Option":
        return NONE
    if isinstance(cur, bool):
        return False
    if isinstance(cur, Int):
        return Int(0, cur.w, cur.s)
    I.unsupported("default of " + type(cur).__name__, node)


def default_for_type(I, tyj, node):
    s = tyj["s"].replace(" ", "")
    if tyj["k"] == "path":
        last = tyj["segs"][-1]
        if last in ("Vec", "VecDeque"):
            return Vec([])
        if last in ("FxHashMap", "HashMap", "FxHashSet", "HashSet", "BTreeMap"):
            return Map([])
        if last == "Option":
            return NONE
        if last == "String":
            return Str("")
        if last == "bool":
            return False
        if last in INT_TYPES:
            return Int(0, *INT_TYPES[last])
        if last in I.p.structs:
            if (last, "default") in I.p.methods:
                return I.call_user(I.p.methods[(last, "default")], [], last)
            return default_struct(I, last, node)
    return I.havoc(f"default<{s}>")


def default_struct(I, name, node):
    sd = I.p.structs[name]
    if sd["fields"]["kind"] == "named":
        return Struct(name, {n: default_for_type(I, t, node) for n, t in zip(sd["fields"]["names"], sd["fields"]["types"])})
    if sd["fields"]["kind"] == "tuple":
        return Struct(name, {str(i): default_for_type(I, t, node) for i, t in enumerate(sd["fields"]["types"])})
    return Struct(name, {})


# -------------------------------------------------------------- ref methods

def call_ref_method(I, r, name, args, node):
    """Methods that mutate a scalar/Option through a &mut place."""
    cur = r.get()
    if isinstance(cur, Enum) and cur.ty == "Option":
        if name == "take":
            used("Option::take")
            r.set(NONE)
            return cur
        if name == "replace":
            r.set(some(I.owned(args[0])))
            return cur
        if name == "insert" or name == "get_or_insert":
            r.set(some(I.owned(args[0])))
            return args[0]
    return NOT_HANDLED


def call_rc_method(I, r, name, args, node):
    if name == "clone":
        used("Rc::clone")
        return r
    if name in ("as_ref", "borrow", "borrow_mut", "deref", "as_mut", "lock", "get_mut"):
        inner = I.deref(r.inner)
        tn = I.type_name(inner)
        if tn and (tn, name) in I.p.methods:
            return NOT_HANDLED
        used("Rc::" + name)
        return r.inner
    return NOT_HANDLED


# ------------------------------------------------------------------- methods

def call_method(I, r, name, args, node):
    r = I.deref(r)
    if isinstance(r, Opaque):
        I.havocs.add(f"<opaque>.{name}")
        I.std_calls.append(f"{r.label}.{name}")
        return Opaque(f"{r.label}.{name}()")
    if name == "clone" or name == "cloned" and not isinstance(r, (Enum, IterV)):
        return I.clone(r)
    if name in ("to_owned", "to_vec", "to_string", "to_path_buf") and isinstance(r, (Str, Vec, Struct)):
        return I.clone(r)
    if name in ("into", "borrow", "borrow_mut", "as_ref", "as_mut", "as_str", "as_slice", "deref", "as_deref",
                "as_mut_slice", "by_ref", "as_bytes_not", "unwrap_or_clone") and not isinstance(r, Enum):
        return r
    if isinstance(r, Vec):
        return vec_method(I, r, name, args, node)
    if isinstance(r, IterV):
        return iter_method(I, r, name, args, node)
    if isinstance(r, Enum) and r.ty in ("Option", "Result"):
        return optres_method(I, r, name, args, node)
    if isinstance(r, (Int, int)) and not isinstance(r, bool):
        return int_method(I, r, name, args, node)
    if isinstance(r, Str):
        return str_method(I, r, name, args, node)
    if isinstance(r, Char):
        return char_method(I, r, name, args, node)
    if isinstance(r, Map):
        return map_method(I, r, name, args, node)
    if isinstance(r, Float):
        return float_method(I, r, name, args, node)
    if isinstance(r, RangeV):
        if name == "contains":
            used("Range::contains")
            x = I.deref(args[0])
            c = True
            if r.start is not None:
                c = b_and(c, I.compare(">=", x, r.start, node))
            if r.end is not None:
                c = b_and(c, I.compare("<=" if r.inclusive else "<", x, r.end, node))
            return c
        return iter_method(I, IterV(I.iter_items(r, node)), name, args, node)
    if isinstance(r, FnRef) and r.kind in ("unknown", "std"):
        # a constant / static defined outside the extracted files: opaque
        I.havocs.add(f"{r.name}.{name}")
        return Opaque(f"{r.name}.{name}()")
    if isinstance(r, tuple) and name == "clone":
        return I.clone(r)
    if isinstance(r, bool) or is_z3bool(r):
        if name == "then_some":
            if I.branch(r):
                return some(I.owned(args[0]))
            return NONE
        if name == "then":
            if I.branch(r):
                return some(I.apply(args[0], [], node))
            return NONE
        if name == "not":
            return b_not(r)
    if isinstance(r, Struct) and r.name == "LazyStatic":
        return lazy_static_method(I, r, name, args, node)
    if isinstance(r, Struct) and r.name == "OccupiedEntry":
        used("hash_map::OccupiedEntry::" + name)
        m, i = r.fields["map"], r.fields["idx"]
        if name == "insert":
            old = m.entries[i][1]
            m.entries[i] = (m.entries[i][0], I.owned(args[0]))
            return old
        if name in ("get", "get_mut", "into_mut"):
            return m.entries[i][1]
        if name == "remove":
            return m.entries.pop(i)[1]
    if isinstance(r, Struct) and r.name == "VacantEntry":
        used("hash_map::VacantEntry::" + name)
        if name == "insert":
            r.fields["map"].entries.append((r.fields["key"], I.owned(args[0])))
            return args[0]
    if isinstance(r, Enum) and r.ty == "Entry":
        used("hash_map::Entry::" + name)
        if name in ("or_default", "or_insert", "or_insert_with"):
            if r.variant == "Occupied":
                e = r.fields[0]
                return e.fields["map"].entries[e.fields["idx"]][1]
            e = r.fields[0]
            v = I.owned(args[0]) if name == "or_insert" else (I.apply(args[0], [], node) if name == "or_insert_with"
                                                               else I.havoc("Entry::or_default"))
            e.fields["map"].entries.append((e.fields["key"], v))
            return v
    if isinstance(r, (Struct, Enum, SymEnum)):
        if name in ("eq", "ne"):
            c = I.eq_values(r, args[0], node)
            return c if name == "eq" else b_not(c)
        if name in ("load",) and isinstance(r, Struct) and "__atomic" in r.fields:
            used("AtomicBool::load")
            return r.fields["__atomic"]
        if name in ("store",) and isinstance(r, Struct) and "__atomic" in r.fields:
            used("AtomicBool::store")
            r.fields["__atomic"] = I.deref(args[0])
            return UNIT
        if name in ("swap",) and isinstance(r, Struct) and "__atomic" in r.fields:
            used("AtomicBool::swap")
            old_v = r.fields["__atomic"]
            r.fields["__atomic"] = I.deref(args[0])
            return old_v
        # unmodelled method of a user/third-party type: havoc
        I.havocs.add(f"{I.type_name(r)}.{name}")
        return Opaque(f"{I.type_name(r)}.{name}()")
    I.unsupported(f"method .{name}() on {type(r).__name__}", node)


# ----------------------------------------------------------------------- Vec

def vec_method(I, v, name, args, node):
    used("Vec::" + name)
    a = args
    if name == "push":
        v.items.append(I.owned(a[0]))
        return UNIT
    if name in ("push_back", "push_mut"):
        if v.kind == "rpds":
            return Vec(v.items + [I.owned(a[0])], "rpds")
        v.items.append(I.owned(a[0]))
        return UNIT
    if name == "pop":
        if not v.items:
            return NONE
        return some(v.items.pop())
    if name == "len":
        return Int(len(v.items), 64, False)
    if name == "is_empty":
        return len(v.items) == 0
    if name in ("last", "last_mut", "back"):
        return some(v.items[-1]) if v.items else NONE
    if name in ("first", "first_mut", "front"):
        return some(v.items[0]) if v.items else NONE
    if name in ("get", "get_mut"):
        idx = I.deref(a[0])
        if isinstance(idx, RangeV):
            n = len(v.items)
            lo = 0 if idx.start is None else I.conc_usize(idx.start, 0, n + 1, node)
            hi = n if idx.end is None else I.conc_usize(idx.end, 0, n + 1, node)
            if idx.inclusive:
                hi += 1
            if lo > hi or hi > n:
                return NONE
            return some(Vec(v.items[lo:hi], "slice"))
        n = len(v.items)
        if isinstance(idx, int):
            return some(v.items[idx]) if 0 <= idx < n else NONE
        if idx.conc:
            return some(v.items[idx.v]) if 0 <= idx.v < n else NONE
        inb = z3.ULT(idx.v, z3.BitVecVal(n, idx.w)) if n else z3.BoolVal(False)
        if I.branch(simp(inb)):
            return some(v.items[I.ctx.concretize_int(idx, 0, n - 1)])
        return NONE
    if name in ("iter", "iter_mut", "into_iter", "drain", "values", "chars_not"):
        items = list(v.items)
        if name == "drain":
            v.items = []
        return IterV(items)
    if name == "truncate":
        n = I.conc_usize(a[0], 0, len(v.items), node)
        if n < len(v.items):
            del v.items[n:]
        return UNIT
    if name == "clear":
        v.items = []
        return UNIT
    if name in ("extend", "extend_from_slice", "append"):
        src = I.strip(a[0])
        items = I.iter_items(src, node)
        v.items.extend(items)
        if name == "append" and isinstance(src, Vec):
            src.items = []
        return UNIT
    if name == "insert":
        i = I.conc_usize(a[0], 0, len(v.items), node)
        if i > len(v.items):
            I.panic("index-oob", node, "insert index out of bounds")
        v.items.insert(i, I.owned(a[1]))
        return UNIT
    if name == "remove":
        i = I.index_of(v, a[0], node)
        return v.items.pop(i)
    if name == "swap_remove":
        i = I.index_of(v, a[0], node)
        x = v.items[i]
        v.items[i] = v.items[-1]
        v.items.pop()
        return x
    if name == "reverse":
        v.items.reverse()
        return UNIT
    if name == "contains":
        res = False
        for x in v.items:
            res = b_or(res, I.eq_values(x, a[0], node))
        return res
    if name == "split_first":
        if not v.items:
            return NONE
        return some((v.items[0], Vec(v.items[1:], "slice")))
    if name == "split_last":
        if not v.items:
            return NONE
        return some((v.items[-1], Vec(v.items[:-1], "slice")))
    if name == "concat":
        out = []
        for x in v.items:
            out.extend(I.iter_items(x, node))
        return Vec(out)
    if name in ("sort_by_key", "sort_unstable_by_key") and v.items:
        # keys that are concrete strings (or concrete ints): sort in place, as the real call does
        keys = []
        for it in v.items:
            kx = I.deref(I.apply(a[0], [it], node))
            if isinstance(kx, Str) and kx.s is not None and all(c.conc for c in kx.chars()):
                keys.append("".join(chr(c.v) for c in kx.chars()).encode("utf-8"))
            elif isinstance(kx, Int) and kx.conc:
                keys.append(kx.v)
            else:
                keys = None
                break
        if keys is not None and len({type(k) for k in keys}) == 1:
            used("Vec::" + name)
            order = sorted(range(len(keys)), key=lambda i: keys[i])
            v.items[:] = [v.items[i] for i in order]
            return UNIT
    if name in ("sort", "sort_by", "sort_by_key", "sort_unstable", "dedup", "join", "retain", "sort_unstable_by_key"):
        I.havocs.add("Vec::" + name)
        return Opaque("Vec::" + name)
    if name in ("eq", "ne"):
        c = I.eq_values(v, a[0], node)
        return c if name == "eq" else b_not(c)
    if name in ("windows", "chunks"):
        n = I.conc_usize(a[0], 0, 16, node)
        if name == "windows":
            return IterV([Vec(v.items[i:i + n], "slice") for i in range(0, len(v.items) - n + 1)])
        return IterV([Vec(v.items[i:i + n], "slice") for i in range(0, len(v.items), n)])
    return iter_method(I, IterV(list(v.items)), name, args, node)


# -------------------------------------------------------------------- Iterator

def iter_method(I, it, name, args, node):
    used("Iterator::" + name)
    items = it.items[it.pos:]
    a = args
    if name in ("iter", "into_iter", "iter_mut", "by_ref", "peekable", "fuse"):
        return it
    if name == "rev":
        return IterV(list(reversed(items)))
    if name == "zip":
        other = I.iter_items(I.deref(a[0]), node)
        return IterV([(x, y) for x, y in zip(items, other)])
    if name == "enumerate":
        return IterV([(Int(i, 64, False), x) for i, x in enumerate(items)])
    if name in ("cloned", "copied"):
        return IterV([I.clone(x) for x in items])
    if name == "map":
        return IterV([I.apply(a[0], [x], node) for x in items])
    if name == "filter":
        out = []
        for x in items:
            if I.branch(I.deref(I.apply(a[0], [x], node))):
                out.append(x)
        return IterV(out)
    if name in ("take_while", "skip_while"):
        k = 0
        while k < len(items) and I.branch(I.deref(I.apply(a[0], [items[k]], node))):
            k += 1
        return IterV(items[:k] if name == "take_while" else items[k:])
    if name == "filter_map":
        out = []
        for x in items:
            r = I.deref(I.apply(a[0], [x], node))
            if isinstance(r, Opaque):
                I.unsupported("filter_map over opaque", node)
            if r.variant == "Some":
                out.append(r.fields[0])
        return IterV(out)
    if name == "flat_map" or name == "flatten":
        out = []
        for x in items:
            r = I.apply(a[0], [x], node) if name == "flat_map" else x
            out.extend(I.iter_items(I.deref(r), node))
        return IterV(out)
    if name == "skip":
        n = I.conc_usize(a[0], 0, len(items), node)
        return IterV(items[n:])
    if name == "take":
        n = I.conc_usize(a[0], 0, len(items), node)
        return IterV(items[:n])
    if name == "step_by":
        n = I.conc_usize(a[0], 1, 64, node)
        return IterV(items[::n])
    if name == "chain":
        return IterV(items + I.iter_items(I.deref(a[0]), node))
    if name == "collect":
        tf = (node.get("turbofish") or "") if isinstance(node, dict) else ""
        if "String" in tf:
            return Str([c for c in items])
        if "HashMap" in tf or "FxHashMap" in tf:
            return Map(list(items))
        return Vec(items)
    if name == "all":
        for x in items:
            if not I.branch(I.deref(I.apply(a[0], [x], node))):
                return False
        return True
    if name == "any":
        for x in items:
            if I.branch(I.deref(I.apply(a[0], [x], node))):
                return True
        return False
    if name == "find":
        for x in items:
            if I.branch(I.deref(I.apply(a[0], [x], node))):
                return some(x)
        return NONE
    if name == "find_map":
        for x in items:
            r = I.deref(I.apply(a[0], [x], node))
            if r.variant == "Some":
                return r
        return NONE
    if name == "position":
        for i, x in enumerate(items):
            if I.branch(I.deref(I.apply(a[0], [x], node))):
                return some(Int(i, 64, False))
        return NONE
    if name == "count" or name == "len":
        return Int(len(items), 64, False)
    if name == "last":
        return some(items[-1]) if items else NONE
    if name == "next":
        if it.pos < len(it.items):
            x = it.items[it.pos]
            it.pos += 1
            return some(x)
        return NONE
    if name == "next_back":
        if it.pos < len(it.items):
            return some(it.items.pop())
        return NONE
    if name == "peek":
        return some(it.items[it.pos]) if it.pos < len(it.items) else NONE
    if name == "nth":
        n = I.conc_usize(a[0], 0, len(items), node)
        if n < len(items):
            it.pos += n + 1
            return some(items[n])
        it.pos = len(it.items)
        return NONE
    if name == "for_each":
        for x in items:
            I.apply(a[0], [x], node)
        return UNIT
    if name == "fold":
        acc = a[0]
        for x in items:
            acc = I.apply(a[1], [acc, x], node)
        return acc
    if name == "sum":
        acc = None
        for x in items:
            acc = x if acc is None else I.arith("+", acc, x, node)
        return acc if acc is not None else Int(0, 64, False)
    if name in ("min", "max"):
        if not items:
            return NONE
        acc = I.deref(items[0])
        for x in items[1:]:
            x = I.deref(x)
            c = I.compare("<=" if name == "min" else ">", acc, x, node)  # min: first of equal; max: last of equal
            if isinstance(c, bool):
                acc = acc if c else x
            else:
                acc = _ite_int(c, acc, x)
        return some(acc)
    if name == "is_empty":
        return len(items) == 0
    if name == "unzip":
        return (Vec([x[0] for x in items]), Vec([x[1] for x in items]))
    if name == "size_hint":
        return I.havoc("size_hint")
    I.unsupported(f"iterator method .{name}()", node)


# --------------------------------------------------------------- Option/Result

def optres_method(I, r, name, args, node):
    used(f"{r.ty}::{name}")
    a = args
    good = "Some" if r.ty == "Option" else "Ok"
    is_good = r.variant == good
    if name in ("is_some", "is_ok"):
        return is_good
    if name in ("is_none", "is_err"):
        return not is_good
    if name in ("unwrap", "expect"):
        if is_good:
            return r.fields[0]
        I.panic(name, node, f"{name} on {r.variant}")
    if name in ("unwrap_err", "expect_err"):
        if not is_good:
            return r.fields[0]
        I.panic(name, node, f"{name} on {r.variant}")
    if name == "unwrap_or":
        return r.fields[0] if is_good else I.owned(a[0])
    if name == "unwrap_or_default":
        if is_good:
            return r.fields[0]
        return I.havoc("unwrap_or_default")
    if name == "unwrap_or_else":
        if is_good:
            return r.fields[0]
        return I.apply(a[0], [] if r.ty == "Option" else [r.fields[0]], node)
    if name == "map":
        if is_good:
            return Enum(r.ty, good, [I.apply(a[0], [r.fields[0]], node)])
        return r
    if name == "map_err":
        if is_good:
            return r
        return Enum(r.ty, "Err", [I.apply(a[0], [r.fields[0]], node)])
    if name == "map_or":
        if is_good:
            return I.apply(a[1], [r.fields[0]], node)
        return I.owned(a[0])
    if name == "map_or_else":
        if is_good:
            return I.apply(a[1], [r.fields[0]], node)
        return I.apply(a[0], [] if r.ty == "Option" else [r.fields[0]], node)
    if name == "and_then":
        if is_good:
            return I.apply(a[0], [r.fields[0]], node)
        return r
    if name == "or_else":
        if is_good:
            return r
        return I.apply(a[0], [] if r.ty == "Option" else [r.fields[0]], node)
    if name == "or":
        return r if is_good else I.deref(a[0])
    if name == "is_some_and" or name == "is_ok_and":
        if is_good:
            return I.deref(I.apply(a[0], [r.fields[0]], node))
        return False
    if name == "is_none_or":
        if is_good:
            return I.deref(I.apply(a[0], [r.fields[0]], node))
        return True
    if name in ("as_ref", "as_mut", "as_deref", "as_deref_mut", "copied", "iter_not"):
        return r
    if name in ("cloned", "clone"):
        return I.clone(r)
    if name == "ok_or":
        return ok(r.fields[0]) if is_good else err(I.owned(a[0]))
    if name == "ok_or_else":
        return ok(r.fields[0]) if is_good else err(I.apply(a[0], [], node))
    if name == "ok":
        return some(r.fields[0]) if is_good else NONE
    if name == "err":
        return NONE if is_good else some(r.fields[0])
    if name == "take":
        return r  # by-value receiver (place case handled in call_ref_method)
    if name == "filter":
        if is_good and I.branch(I.deref(I.apply(a[0], [r.fields[0]], node))):
            return r
        return NONE
    if name in ("iter", "into_iter"):
        return IterV(list(r.fields) if is_good else [])
    if name == "flatten":
        return r.fields[0] if is_good else r
    if name in ("eq", "ne"):
        c = I.eq_values(r, a[0], node)
        return c if name == "eq" else b_not(c)
    if name == "zip":
        o = I.deref(a[0])
        if is_good and o.variant == "Some":
            return some((r.fields[0], o.fields[0]))
        return NONE
    I.unsupported(f"{r.ty} method .{name}()", node)


# ---------------------------------------------------------------------- ints

def pow_uf(w):
    """Exact integer power as an uninterpreted function with a representability flag."""
    bv = z3.BitVecSort(w)
    return (z3.Function(f"POW_val_{w}", bv, z3.BitVecSort(64), bv),
            z3.Function(f"POW_fits_{w}", bv, z3.BitVecSort(64), z3.BoolSort()))


def pow_lemmas(a, b):
    """True facts about the exact power a**b (a: BV64 signed base, b: BV64 exponent with 0 <= b <= u32::MAX) in terms of
    the uninterpreted POW_val / POW_fits: the special bases and exponents for which an implementation might take a
    fast path (0, 1, -1, 2, -2; exponents 0 and 1; everything with |a| >= 2 overflows from exponent 64 on)."""
    pv, pf = pow_uf(64)
    v, f = pv(a, b), pf(a, b)
    one, zero = z3.BitVecVal(1, 64), z3.BitVecVal(0, 64)
    mn = z3.BitVecVal(-(1 << 63), 64)
    inr = z3.And(b >= 0, b <= 0xFFFFFFFF)
    even = z3.Extract(0, 0, b) == 0
    shl = one << b
    big = z3.Or(a >= 2, a <= -2)
    return [z3.Implies(inr, z3.And(
        z3.Implies(b == 0, z3.And(f, v == one)),
        z3.Implies(b == 1, z3.And(f, v == a)),
        z3.Implies(z3.And(a == 0, b > 0), z3.And(f, v == zero)),
        z3.Implies(a == 1, z3.And(f, v == one)),
        z3.Implies(a == -1, z3.And(f, v == z3.If(even, one, -one))),
        z3.Implies(z3.And(a == 2, b < 63), z3.And(f, v == shl)),
        z3.Implies(z3.And(a == 2, b >= 63), z3.Not(f)),
        z3.Implies(z3.And(a == -2, b < 63), z3.And(f, v == z3.If(even, shl, -shl))),
        z3.Implies(z3.And(a == -2, b == 63), z3.And(f, v == mn)),
        z3.Implies(z3.And(big, b >= 64), z3.Not(f)),
    ))]


def int_method(I, x, name, args, node):
    used("int::" + name)
    a = [I.deref(v) for v in args]
    if any(isinstance(v, Opaque) for v in a):
        return I.havoc(f"int.{name}(opaque)")
    if isinstance(x, int):
        if a and isinstance(a[0], Int):
            x = Int(x, a[0].w, a[0].s)
        else:
            x = Int(x, 64, True)
    w, s = x.w, x.s
    if a and isinstance(a[0], int) and not isinstance(a[0], bool) and name not in ("pow", "checked_pow", "wrapping_pow"):
        a[0] = Int(a[0], w, s)
    xz = x.z()
    if name in ("wrapping_add", "wrapping_sub", "wrapping_mul"):
        bz = a[0].z()
        r = {"wrapping_add": xz + bz, "wrapping_sub": xz - bz, "wrapping_mul": xz * bz}[name]
        return int_from_z(r, w, s)
    if name in ("checked_add", "checked_sub", "checked_mul"):
        bz = a[0].z()
        if name == "checked_add":
            fits = z3.And(z3.BVAddNoOverflow(xz, bz, s), z3.BVAddNoUnderflow(xz, bz) if s else True)
            r = xz + bz
        elif name == "checked_sub":
            fits = z3.And(z3.BVSubNoOverflow(xz, bz) if s else True, z3.BVSubNoUnderflow(xz, bz, s))
            r = xz - bz
        else:
            fits = z3.And(z3.BVMulNoOverflow(xz, bz, s), z3.BVMulNoUnderflow(xz, bz) if s else True)
            r = xz * bz
        if I.branch(simp(fits)):
            return some(int_from_z(r, w, s))
        return NONE
    if name in ("saturating_sub", "saturating_add"):
        bz = a[0].z()
        if s:
            I.unsupported("signed saturating op", node)
        if name == "saturating_sub":
            return int_from_z(z3.If(z3.ULT(xz, bz), z3.BitVecVal(0, w), xz - bz), w, s)
        return int_from_z(z3.If(z3.BVAddNoOverflow(xz, bz, False), xz + bz, z3.BitVecVal(-1, w)), w, s)
    if name in ("checked_div", "checked_rem", "checked_rem_euclid", "checked_div_euclid"):
        bz = a[0].z()
        mn = z3.BitVecVal(1 << (w - 1), w)
        bad = bz == 0
        if s:
            bad = z3.Or(bad, z3.And(xz == mn, bz == z3.BitVecVal(-1, w)))
        if I.branch(simp(bad)):
            return NONE
        if not s:
            return some(int_from_z(z3.UDiv(xz, bz) if "div" in name else z3.URem(xz, bz), w, s))
        if name == "checked_div":
            return some(int_from_z(xz / bz, w, s))
        if name == "checked_rem":
            return some(int_from_z(z3.SRem(xz, bz), w, s))
        r = z3.SRem(xz, bz)
        if name == "checked_rem_euclid":
            # std: if r < 0 { r.wrapping_add(rhs.wrapping_abs()) } else { r }
            absb = z3.If(bz < 0, -bz, bz)
            return some(int_from_z(z3.If(r < 0, r + absb, r), w, s))
        q = xz / bz
        return some(int_from_z(z3.If(r < 0, z3.If(bz > 0, q - 1, q + 1), q), w, s))
    if name in ("rem_euclid", "wrapping_rem_euclid", "div_euclid", "wrapping_div", "wrapping_rem"):
        bz = a[0].z()
        if I.branch(simp(bz == 0)):
            I.panic("div-by-zero", node, f"{name} by zero")
        mn = z3.BitVecVal(1 << (w - 1), w)
        if s and not name.startswith("wrapping") and I.branch(simp(z3.And(xz == mn, bz == z3.BitVecVal(-1, w)))):
            I.panic("overflow", node, f"{name} overflow")
        if not s:
            return int_from_z(z3.UDiv(xz, bz) if "div" in name else z3.URem(xz, bz), w, s)
        r = z3.SRem(xz, bz)
        if name in ("rem_euclid", "wrapping_rem_euclid"):
            absb = z3.If(bz < 0, -bz, bz)
            return int_from_z(z3.If(r < 0, r + absb, r), w, s)
        if name == "wrapping_div":
            return int_from_z(xz / bz, w, s)
        if name == "wrapping_rem":
            return int_from_z(r, w, s)
        q = xz / bz
        return int_from_z(z3.If(r < 0, z3.If(bz > 0, q - 1, q + 1), q), w, s)
    if name in ("checked_pow", "pow", "wrapping_pow", "saturating_pow", "overflowing_pow"):
        e = a[0]
        if isinstance(e, int):
            e = Int(e, 32, False)
        pv, pf = pow_uf(w)
        e64 = z3.ZeroExt(64 - e.w, e.z()) if e.w < 64 else e.z()
        if name == "checked_pow":
            if I.branch(simp(pf(xz, e64))):
                return some(int_from_z(pv(xz, e64), w, s))
            return NONE
        if name == "pow":
            if I.profile == "dev" and not I.branch(simp(pf(xz, e64))):
                I.panic("overflow", node, "attempt to multiply with overflow (pow)")
            wv = z3.Function(f"POW_wrap_{w}", z3.BitVecSort(w), z3.BitVecSort(64), z3.BitVecSort(w))
            return int_from_z(z3.If(pf(xz, e64), pv(xz, e64), wv(xz, e64)), w, s)
        wv = z3.Function(f"POW_wrap_{w}", z3.BitVecSort(w), z3.BitVecSort(64), z3.BitVecSort(w))
        return int_from_z(z3.If(pf(xz, e64), pv(xz, e64), wv(xz, e64)), w, s)
    if name in ("min", "max"):
        c = I.compare("<=" if name == "min" else ">=", x, a[0], node)
        if isinstance(c, bool):
            return x if c else a[0]
        return _ite_int(c, x, a[0])
    if name == "abs":
        if I.profile == "dev" and s and I.branch(simp(xz == z3.BitVecVal(1 << (w - 1), w))):
            I.panic("overflow", node, "abs overflow")
        return int_from_z(z3.If(xz < 0, -xz, xz), w, s)
    if name in ("wrapping_abs", "unsigned_abs"):
        return int_from_z(z3.If(xz < 0, -xz, xz), w, s if name == "wrapping_abs" else False)
    if name == "wrapping_neg":
        return int_from_z(-xz, w, s)
    if name == "is_multiple_of":
        bz = a[0].z()
        if x.conc and a[0].conc:
            return (x.v == 0) if a[0].v == 0 else (x.v % a[0].v == 0)
        # symbolic: an uninterpreted predicate (64-bit urem by a constant stalls bit-blasting and nothing in the
        # encoded kernels depends on its arithmetic meaning: it only gates profiling output)
        f = z3.Function(f"IS_MULTIPLE_OF_{w}", z3.BitVecSort(w), z3.BitVecSort(w), z3.BoolSort())
        return f(xz, bz)
    if name in ("eq", "ne"):
        c = I.eq_values(x, a[0], node)
        return c if name == "eq" else b_not(c)
    if name in ("cmp", "partial_cmp"):
        lt = I.compare("<", x, a[0], node)
        eq = I.eq_values(x, a[0], node)
        if I.branch(lt):
            o = Enum("Ordering", "Less", [])
        elif I.branch(eq):
            o = Enum("Ordering", "Equal", [])
        else:
            o = Enum("Ordering", "Greater", [])
        return o if name == "cmp" else some(o)
    if name in ("to_string", "to_owned", "into", "clone"):
        if name == "to_string":
            return I.havoc("int.to_string")
        return x
    if name in ("is_positive", "is_negative"):
        return I.compare(">" if name == "is_positive" else "<", x, Int(0, w, s), node)
    if name in ("try_into", "try_from"):
        return I.havoc("try_into")
    if name == "is_ascii_digit" and w == 8:
        return simp(z3.And(z3.UGE(xz, 48), z3.ULE(xz, 57)))
    I.unsupported(f"int method .{name}()", node)


def float_method(I, x, name, args, node):
    used("f64::" + name)
    if name in ("is_nan",):
        return simp(z3.fpIsNaN(x.v))
    if name in ("is_finite",):
        return simp(z3.Not(z3.Or(z3.fpIsNaN(x.v), z3.fpIsInf(x.v))))
    if name in ("is_infinite",):
        return simp(z3.fpIsInf(x.v))
    if name == "abs":
        return Float(z3.fpAbs(x.v))
    if name in ("floor", "ceil", "round", "trunc"):
        rm = {"floor": z3.RTN(), "ceil": z3.RTP(), "round": z3.RNA(), "trunc": z3.RTZ()}[name]
        return Float(z3.fpRoundToIntegral(rm, x.v))
    if name == "fract":
        return Float(z3.fpSub(z3.RNE(), x.v, z3.fpRoundToIntegral(z3.RTZ(), x.v)))
    if name == "to_bits":
        # IEEE-754 bit pattern (NaN payloads as z3 chooses: fpToIEEEBV is unspecified on NaN; callers assume finite)
        return int_from_z(z3.fpToIEEEBV(x.v), 64, False)
    if name == "total_cmp":
        return I.havoc("f64.total_cmp")
    if name in ("to_string",):
        return I.havoc("f64.to_string")
    I.unsupported(f"f64 method .{name}()", node)


# ---------------------------------------------------------------------- Map

def map_method(I, m, name, args, node):
    used("Map::" + name)
    a = args
    if name in ("get", "get_mut"):
        r = I.map_get(m, a[0], node)
        return some(r) if r is not None else NONE
    if name in ("contains_key", "contains"):
        res = False
        for k, _ in m.entries:
            res = b_or(res, I.eq_values(k, a[0], node))
        return res
    if name == "insert":
        key = I.owned(a[0])
        val = I.owned(a[1]) if len(a) > 1 else UNIT
        for i, (k, v) in enumerate(m.entries):
            if I.branch(I.eq_values(k, key, node)):
                m.entries[i] = (k, val)
                return some(v) if len(a) > 1 else False
        m.entries.append((key, val))
        return NONE if len(a) > 1 else True
    if name == "remove":
        for i, (k, v) in enumerate(m.entries):
            if I.branch(I.eq_values(k, a[0], node)):
                del m.entries[i]
                return some(v)
        return NONE
    if name == "entry":
        key = I.owned(a[0])
        for i, (k, v) in enumerate(m.entries):
            if I.branch(I.eq_values(k, key, node)):
                return Enum("Entry", "Occupied", [Struct("OccupiedEntry", {"map": m, "idx": i})])
        return Enum("Entry", "Vacant", [Struct("VacantEntry", {"map": m, "key": key})])
    if name == "len":
        return Int(len(m.entries), 64, False)
    if name == "is_empty":
        return len(m.entries) == 0
    if name in ("keys", "into_keys"):
        return IterV([k for k, _ in m.entries])
    if name == "into_values":
        return IterV([v for _, v in m.entries])
    if name in ("values", "values_mut"):
        return IterV([v for _, v in m.entries])
    if name in ("iter", "iter_mut", "into_iter"):
        return IterV([(k, v) for k, v in m.entries])
    if name == "clear":
        m.entries = []
        return UNIT
    if name == "extend":
        for kv in I.iter_items(I.deref(a[0]), node):
            map_method(I, m, "insert", [kv[0], kv[1]], node)
        return UNIT
    I.unsupported(f"map method .{name}()", node)


# ------------------------------------------------------------------- strings
# Symbolic strings are lists of Char; byte offsets are derived from len_utf8.

def char_len_utf8(c):
    """-> python int or z3 BV64"""
    if c.conc:
        v = c.v
        return 1 if v < 0x80 else 2 if v < 0x800 else 3 if v < 0x10000 else 4
    z = c.v
    return z3.If(z3.ULT(z, 0x80), z3.BitVecVal(1, 64),
                 z3.If(z3.ULT(z, 0x800), z3.BitVecVal(2, 64),
                       z3.If(z3.ULT(z, 0x10000), z3.BitVecVal(3, 64), z3.BitVecVal(4, 64))))


def clen8(I, c):
    """UTF-8 length of a char.  With I.concrete_utf8 the length class of a symbolic char is decided by forking
    (solver-checked, remembered for the path), so byte offsets stay concrete integers."""
    if c.conc or not getattr(I, "concrete_utf8", False):
        return char_len_utf8(c)
    key = ("len8", str(c.v))
    k = I.ctx.known_tags.get(key)
    if k is None:
        z = c.v
        k = 1 + I.ctx.choose([z3.ULT(z, 0x80), z3.And(z3.UGE(z, 0x80), z3.ULT(z, 0x800)),
                              z3.And(z3.UGE(z, 0x800), z3.ULT(z, 0x10000)), z3.UGE(z, 0x10000)])
        I.ctx.known_tags[key] = k
    return k


def char_utf8_bytes(I, c):
    """UTF-8 encoding of a char as 8-bit Ints; the length class of a symbolic char is decided by forking (as in clen8)."""
    if c.conc:
        return [Int(b, 8, False) for b in chr(c.v).encode("utf-8")]
    z = c.v
    key = ("len8", str(z))
    k = I.ctx.known_tags.get(key)
    if k is None:
        k = 1 + I.ctx.choose([z3.ULT(z, 0x80), z3.And(z3.UGE(z, 0x80), z3.ULT(z, 0x800)),
                              z3.And(z3.UGE(z, 0x800), z3.ULT(z, 0x10000)), z3.UGE(z, 0x10000)])
        I.ctx.known_tags[key] = k
    ex = lambda hi, lo, w: z3.ZeroExt(8 - (hi - lo + 1), z3.Extract(hi, lo, z))  # noqa: E731
    cont = lambda hi, lo: z3.BitVecVal(0x80, 8) | ex(hi, lo, 6)  # noqa: E731
    if k == 1:
        zs = [z3.Extract(7, 0, z)]
    elif k == 2:
        zs = [z3.BitVecVal(0xC0, 8) | ex(10, 6, 5), cont(5, 0)]
    elif k == 3:
        zs = [z3.BitVecVal(0xE0, 8) | ex(15, 12, 4), cont(11, 6), cont(5, 0)]
    else:
        zs = [z3.BitVecVal(0xF0, 8) | ex(20, 18, 3), cont(17, 12), cont(11, 6), cont(5, 0)]
    return [int_from_z(z3.simplify(b), 8, False) for b in zs]


def char_len_utf16(c):
    if c.conc:
        return 1 if c.v < 0x10000 else 2
    return z3.If(z3.ULT(c.v, 0x10000), z3.BitVecVal(1, 64), z3.BitVecVal(2, 64))


def _sum64(xs):
    tot = 0
    sym = None
    for x in xs:
        if isinstance(x, int):
            tot += x
        else:
            sym = x if sym is None else sym + x
    if sym is None:
        return Int(tot, 64, False)
    return int_from_z(sym + z3.BitVecVal(tot, 64), 64, False)


def str_byte_offsets(I, s):
    """List of Int byte offsets of each char boundary (len(chars)+1 entries)."""
    cs = s.chars()
    offs = [Int(0, 64, False)]
    lens = [clen8(I, c) for c in cs]
    for i in range(len(cs)):
        offs.append(_sum64(lens[:i + 1]))
    return offs


def str_len(I, s):
    if s.conc:
        return Int(len(s.s.encode("utf-8")), 64, False)
    return str_byte_offsets(I, s)[-1]


def char_index_for_offset(I, s, off, node, what="byte index"):
    """Fork to the char index whose boundary equals byte offset `off`; panic if
    the offset is not on a char boundary or is out of range."""
    off = I.deref(off)
    offs = str_byte_offsets(I, s)
    if isinstance(off, int):
        off = Int(off, 64, False)
    for i, o in enumerate(offs):
        c = I.eq_values(o, off)
        if c is True:
            return i
    # symbolic: choose among boundaries
    conds = [to_z3bool(I.eq_values(o, off)) for o in offs]
    on_boundary = simp(z3.Or(*conds))
    if not I.branch(on_boundary):
        I.panic("str-slice", node, f"{what} is not a char boundary or out of range")
    # first matching boundary (offsets are strictly increasing, so at most one matches)
    k = I.ctx.choose([c for c in conds])
    return k


def str_slice(I, s, rng, node):
    used("str::index(range)")
    cs = s.chars()
    n = len(cs)
    lo = 0 if rng.start is None else char_index_for_offset(I, s, rng.start, node, "slice start")
    if rng.end is None:
        hi = n
    else:
        end = rng.end
        if rng.inclusive:
            end = I.arith("+", end, 1, node)
        hi = char_index_for_offset(I, s, end, node, "slice end")
    if lo > hi:
        I.panic("str-slice", node, "slice start > end")
    if s.conc:
        return Str(s.s[lo:hi])
    return Str(cs[lo:hi])


def str_push_str(I, s, other, node):
    o = I.deref(other)
    if isinstance(o, Opaque) or (isinstance(o, Str) and o.s is None) or s.s is None:
        s.s = None      # content unknown from here on: every read of this string is opaque
        return
    if isinstance(o, Char):
        o = Str([o])
    if s.conc and o.conc:
        s.s = s.s + o.s
    else:
        s.s = s.chars() + o.chars()


WHITE_SPACE = [(0x9, 0xD), (0x20, 0x20), (0x85, 0x85), (0xA0, 0xA0), (0x1680, 0x1680), (0x2000, 0x200A),
               (0x2028, 0x2029), (0x202F, 0x202F), (0x205F, 0x205F), (0x3000, 0x3000)]


def in_ranges(z, ranges):
    return z3.Or(*[z3.And(z3.UGE(z, lo), z3.ULE(z, hi)) if lo != hi else z == lo for lo, hi in ranges])


def char_method(I, c, name, args, node):
    used("char::" + name)
    if name == "len_utf8":
        r = clen8(I, c)
        return Int(r, 64, False) if isinstance(r, int) else int_from_z(r, 64, False)
    if name == "len_utf16":
        r = char_len_utf16(c)
        return Int(r, 64, False) if isinstance(r, int) else int_from_z(r, 64, False)
    if name == "is_whitespace":
        if c.conc:
            return chr(c.v).isspace() and any(lo <= c.v <= hi for lo, hi in WHITE_SPACE)
        return simp(in_ranges(c.v, WHITE_SPACE))
    if name == "is_ascii_digit":
        if c.conc:
            return 48 <= c.v <= 57
        return simp(z3.And(z3.UGE(c.v, 48), z3.ULE(c.v, 57)))
    if name == "is_ascii":
        if c.conc:
            return c.v < 128
        return simp(z3.ULT(c.v, 128))
    if name in ("is_ascii_alphabetic", "is_ascii_alphanumeric", "is_ascii_uppercase", "is_ascii_lowercase",
                "is_ascii_punctuation", "is_ascii_whitespace"):
        rs = {"is_ascii_alphabetic": [(65, 90), (97, 122)], "is_ascii_alphanumeric": [(48, 57), (65, 90), (97, 122)],
              "is_ascii_uppercase": [(65, 90)], "is_ascii_lowercase": [(97, 122)],
              "is_ascii_punctuation": [(33, 47), (58, 64), (91, 96), (123, 126)],
              "is_ascii_whitespace": [(9, 10), (12, 13), (32, 32)]}[name]
        if c.conc:
            return any(lo <= c.v <= hi for lo, hi in rs)
        return simp(in_ranges(c.v, rs))
    if name in ("is_alphabetic", "is_alphanumeric", "is_numeric", "is_uppercase", "is_lowercase", "is_control"):
        if c.conc:
            ch = chr(c.v)
            return {"is_alphabetic": ch.isalpha(), "is_alphanumeric": ch.isalnum(), "is_numeric": ch.isnumeric(),
                    "is_uppercase": ch.isupper(), "is_lowercase": ch.islower(),
                    "is_control": c.v < 32 or 127 <= c.v < 160}[name]
        return I.havoc("char." + name)
    if name in ("to_string", "into"):
        return Str([c]) if not c.conc else Str(chr(c.v))
    if name in ("eq", "ne"):
        r = I.eq_values(c, args[0], node)
        return r if name == "eq" else b_not(r)
    if name == "to_digit":
        return I.havoc("char.to_digit")
    I.unsupported(f"char method .{name}()", node)


def _as_str(I, x, node):
    x = I.deref(x)
    if isinstance(x, Str):
        return x
    if isinstance(x, Char):
        return Str(chr(x.v)) if x.conc else Str([x])
    if isinstance(x, str):
        return Str(x)
    I.unsupported(f"expected string, got {type(x).__name__}", node)


def str_starts_with_at(I, s_chars, i, pat_chars):
    """cond that s_chars[i:] starts with pat_chars (char-wise)."""
    if i + len(pat_chars) > len(s_chars):
        return False
    return b_and(*[I.eq_values(s_chars[i + j], pat_chars[j]) for j in range(len(pat_chars))])


def str_method(I, s, name, args, node):
    used("str::" + name)
    a = args
    if s.s is None:
        if name in ("push", "push_str", "clear"):
            if name == "clear":
                s.s = ""
            return UNIT
        if name in ("to_owned", "to_string", "clone", "into", "as_str", "as_ref", "borrow"):
            return Str(None)
        I.havocs.add("str(unknown)." + name)
        return Opaque(f"str.{name}()")
    if name == "len":
        return str_len(I, s)
    if name == "is_empty":
        return len(s.chars()) == 0
    if name == "chars":
        return IterV(s.chars())
    if name == "char_indices":
        offs = str_byte_offsets(I, s)
        return IterV([(offs[i], c) for i, c in enumerate(s.chars())])
    if name == "bytes" or name == "as_bytes":
        if s.conc:
            return IterV([Int(b, 8, False) for b in s.s.encode("utf-8")]) if name == "bytes" else \
                Vec([Int(b, 8, False) for b in s.s.encode("utf-8")], "slice")
        bs = []
        for c in s.chars():
            bs += char_utf8_bytes(I, c)
        return IterV(bs) if name == "bytes" else Vec(bs, "slice")
    if name in ("push", "push_str"):
        str_push_str(I, s, a[0], node)
        return UNIT
    if name in ("to_owned", "to_string", "clone", "into", "as_str", "as_ref", "borrow"):
        return Str(s.s if s.conc else list(s.s))
    if name == "is_char_boundary":
        off = I.deref(a[0])
        offs = str_byte_offsets(I, s)
        return b_or(*[I.eq_values(o, off) for o in offs])
    if name in ("starts_with", "ends_with"):
        p = I.deref(a[0])
        if isinstance(p, Closure) or isinstance(p, FnRef):
            cs = s.chars()
            if not cs:
                return False
            c = cs[0] if name == "starts_with" else cs[-1]
            return I.deref(I.apply(p, [c], node))
        p = _as_str(I, p, node)
        if s.conc and p.conc:
            return s.s.startswith(p.s) if name == "starts_with" else s.s.endswith(p.s)
        cs, pc = s.chars(), p.chars()
        if name == "starts_with":
            return str_starts_with_at(I, cs, 0, pc)
        if len(pc) > len(cs):
            return False
        return str_starts_with_at(I, cs, len(cs) - len(pc), pc)
    if name in ("find", "rfind", "contains"):
        p = I.deref(a[0])
        cs = s.chars()
        offs = str_byte_offsets(I, s)
        if isinstance(p, (Closure, FnRef)):
            idxs = range(len(cs)) if name != "rfind" else range(len(cs) - 1, -1, -1)
            for i in idxs:
                if I.branch(I.deref(I.apply(p, [cs[i]], node))):
                    return True if name == "contains" else some(offs[i])
            return False if name == "contains" else NONE
        pc = _as_str(I, p, node).chars()
        last = len(cs) - len(pc)
        idxs = list(range(0, last + 1))
        if name == "rfind":
            idxs.reverse()
        for i in idxs:
            if I.branch(str_starts_with_at(I, cs, i, pc)):
                return True if name == "contains" else some(offs[i])
        return False if name == "contains" else NONE
    if name == "split_once":
        p = _as_str(I, a[0], node)
        if s.conc and p.conc:
            if p.s in s.s:
                x, y = s.s.split(p.s, 1)
                return some((Str(x), Str(y)))
            return NONE
        cs, pc = s.chars(), p.chars()
        for i in range(0, len(cs) - len(pc) + 1):
            if I.branch(str_starts_with_at(I, cs, i, pc)):
                return some((Str(cs[:i]), Str(cs[i + len(pc):])))
        return NONE
    if name == "strip_prefix" or name == "strip_suffix":
        p = _as_str(I, a[0], node)
        cs, pc = s.chars(), p.chars()
        if name == "strip_prefix":
            if I.branch(str_starts_with_at(I, cs, 0, pc)):
                return some(Str(cs[len(pc):]))
            return NONE
        if len(pc) <= len(cs) and I.branch(str_starts_with_at(I, cs, len(cs) - len(pc), pc)):
            return some(Str(cs[:len(cs) - len(pc)]))
        return NONE
    if name == "lines":
        # std::str::Lines: split on '\n', strip one trailing '\r' per line, no trailing empty line
        cs = s.chars()
        lines, cur = [], []
        for c in cs:
            if I.branch(I.eq_values(c, Char(10))):
                if cur and I.branch(I.eq_values(cur[-1], Char(13))):
                    cur = cur[:-1]
                lines.append(Str(cur))
                cur = []
            else:
                cur = cur + [c]
        if cur:
            # std: the final line (no terminator) keeps a bare trailing '\r'?  No: Lines uses
            # split_inclusive('\n') then strips "\n" and then "\r" only if "\n" was stripped.
            lines.append(Str(cur))
        return IterV(lines)
    if name == "encode_utf16":
        out = []
        for c in s.chars():
            n = char_len_utf16(c)
            if isinstance(n, int):
                out.extend([Int(0, 16, False)] * n)
            else:
                if I.branch(simp(z3.ULT(c.v, 0x10000))):
                    out.append(Int(0, 16, False))
                else:
                    out.extend([Int(0, 16, False)] * 2)
        return IterV(out)
    if name in ("trim", "trim_start", "trim_end", "to_lowercase", "to_uppercase", "replace", "split", "parse",
                "split_whitespace", "repeat", "trim_matches", "trim_start_matches", "trim_end_matches"):
        if s.conc and name in ("trim", "trim_start", "trim_end"):
            return Str({"trim": s.s.strip(), "trim_start": s.s.lstrip(), "trim_end": s.s.rstrip()}[name])
        if s.conc and name in ("to_lowercase", "to_uppercase") and s.s.isascii():
            return Str(s.s.lower() if name == "to_lowercase" else s.s.upper())
        if s.conc and name == "split_whitespace":
            return IterV([Str(x) for x in s.s.split()])
        I.havocs.add("str::" + name)
        return Opaque("str::" + name)
    if name in ("eq", "ne"):
        c = I.eq_values(s, a[0], node)
        return c if name == "eq" else b_not(c)
    if name == "get":
        rng = I.deref(a[0])
        try:
            return some(str_slice(I, s, rng, node))
        except Panic:
            return NONE
    if name == "clear":
        s.s = ""
        return UNIT
    if name == "pop":
        cs = s.chars()
        if not cs:
            return NONE
        s.s = cs[:-1] if not s.conc else s.s[:-1]
        return some(cs[-1])
    if name == "insert_str" or name == "insert":
        I.unsupported("str insert", node)
    I.unsupported(f"str method .{name}()", node)


def lazy_static_method(I, r, name, args, node):
    nat = I.natives.get("LazyStatic::" + name)
    if nat is not None:
        return nat(I, [r] + list(args), node)
    I.unsupported(f"lazy_static {r.fields['name']}.{name}() needs a native model", node)
