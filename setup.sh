#!/bin/bash
# Offline setup: build the syn-based extractor and warm the replay binary.
set -e
cd "$(dirname "$0")"
export CARGO_NET_OFFLINE=true
mkdir -p .cache
( cd extract && CARGO_TARGET_DIR=../.cache/extract-target cargo build --release --offline 2>&1 | tail -3 )
# Warm the debug build of /repo (hooks on); checks rebuild incrementally from the working tree.
( cd /repo && CARGO_TARGET_DIR=/verif/.cache/target RUSTFLAGS="--cfg wilfred_garden_verif --check-cfg cfg(wilfred_garden_verif)" \
    cargo build --offline --bin garden 2>&1 | tail -3 ) || echo "warm build failed (checks will retry)"
echo setup-done
