"""Further claimed checks (kept apart from mkmanifest.py so it can be appended to)."""
EXTRA = {}

EXTRA["C34"] = {
    "text": "Bounded symbolic model checking of the runtime visibility step: the real eval_expr arm for "
            "NamespaceAccess (eval_namespace_access) is executed on a namespace whose `values` map and "
            "`exported_syms` set hold 0..2 entries with symbolic names, for a symbolic accessed name; z3 decides that "
            "a value is pushed iff the name is in both, that it is that name's value, and that every refusal is an "
            "exception restoring exactly the receiver. A two-file native project is the user-visible oracle.",
    "note": "Trusted: rsx, association-list model of FxHashMap/FxHashSet, z3. The checker side "
            "(infer_namespace_access), unqualified imports (insert_imported_namespace) and cyclic import loading are "
            "file-system and whole-Env code, outside the claim.",
    "design_ref": "DESIGN.md section 6, C34",
}

_WALK = ("every expression kind, every built-in function kind and built-in method kind (argument counts 0..N) and every "
         "other call receiver is driven through the real eval_expr dispatcher: the NotEvaluated arm queues "
         "sub-expressions, each evaluates to a fresh symbolic Value (symbolic Value_ variant, 64-bit Int/Float payloads, "
         "opaque aggregates), and the later arms run on the operand stack the dispatcher itself produced")

EXTRA["C07"] = {
    "text": "Bounded symbolic model checking of error-and-resume, one failing step at a time: " + _WALK + ". On every "
            "feasible path where a step returns Err((RestoreValues, _)) the real restore_stack_frame is applied and the "
            "step is executed a second time with the same free decisions. Decided per path: the operand stack after the "
            "restore equals the stack before the step (same values, same order), the resumed step fails with the same "
            "error (message operands and position) and leaves the same stack, i.e. the error is stable under any number "
            "of :resume. SAT candidates are replayed in a scripted JSON session (input, :resume, :resume; responses must "
            "be equal). Bound: argument counts 0..2 (quick) / 0..3, one match case, blocks of 0..1 expressions.",
    "note": "Trusted: rsx, std models, z3 (path feasibility); 'a step is a function of entry, state, operands and "
            "environment', opaque data functional in its inputs. Candidates on over-approximated (tainted) paths count "
            "only when natively reproduced. 37 genuine call sites with a wrong RestoreValues order are recorded in "
            "known_findings.jsonl and reported as KNOWN-FINDING.",
    "design_ref": "DESIGN.md section 6, C07",
}

EXTRA["C02"] = {
    "text": "Bounded symbolic model checking of panic-freedom of each evaluation step's own code: " + _WALK + ". Every "
            "panic!/unreachable!/assert!/expect/unwrap, index, slice and (dev-profile) arithmetic site reached under a "
            "satisfiable path condition is a candidate; the solver's model picks the operand kinds and the generated "
            "call is run on the real binary (exit 101 confirms). Bound: argument counts 0..3 (quick) / 0..4, <= 6 "
            "dispatcher steps per expression.",
    "note": "Trusted: rsx, std models, z3. Whole-program runs, Rust-stack overflow on deeply nested values, panics inside "
            "opaquely modelled std calls, indices computed from opaque (string/list) payloads and the parser/checker "
            "(C01) are outside the claim. Arithmetic at integer limits is decided exactly by C04.",
    "design_ref": "DESIGN.md section 6, C02",
}

EXTRA["C24"] = {
    "text": "Bounded symbolic model checking of the sandbox gate: " + _WALK + ", with env.enforce_sandbox = true. Every "
            "unmodelled std / third-party call an arm reaches is recorded; decided per path: no effect sink (std::fs, "
            "File, process::Command, stdin, set_current_dir, Path exists/metadata/read_dir) is reachable. Candidates "
            "are confirmed under `garden playground-run` in a scratch directory with evidence of an effect (directory "
            "or file changed, file content or stdin line echoed, run blocked). A syntactic companion regenerated each "
            "run checks that effect APIs occur in eval.rs only inside the two dispatchers and the import helpers.",
    "note": "Trusted: rsx, std models, z3, the fixed sink pattern (listed in evidence with the census of all unmodelled "
            "calls reached). Reads through `import`, dbg/print output, get_env and path canonicalisation of the "
            "program's own source path are outside the claim.",
    "design_ref": "DESIGN.md section 6, C24",
}
