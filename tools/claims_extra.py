"""Further claimed checks (kept apart from mkmanifest.py so it can be appended to)."""
EXTRA = {}

EXTRA["C34"] = {
    "text": "Bounded symbolic model checking of the runtime visibility step: the real eval_expr arm for "
            "NamespaceAccess (eval_namespace_access) is executed on a namespace whose `values` map and "
            "`exported_syms` set hold 0..2 entries with symbolic names, for a symbolic accessed name; z3 decides that "
            "a value is pushed iff the name is in both, that it is that name's value, and that every refusal is an "
            "exception restoring exactly the receiver. A two-file native project is the user-visible oracle.",
    "note": "Trusted: rsx, association-list model of FxHashMap/FxHashSet, z3. The checker side "
            "(infer_namespace_access), unqualified imports (insert_imported_namespace) and cyclic import loading are "
            "file-system and whole-Env code, outside the claim.",
    "design_ref": "DESIGN.md section 6, C34",
}
