"""Further claimed checks (kept apart from mkmanifest.py so it can be appended to)."""
EXTRA = {}
