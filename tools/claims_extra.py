"""Further claimed checks (kept apart from mkmanifest.py so it can be appended to)."""
EXTRA = {}

EXTRA["C34"] = {
    "text": "Bounded symbolic model checking of the runtime visibility step: the real eval_expr arm for "
            "NamespaceAccess (eval_namespace_access) is executed on a namespace whose `values` map and "
            "`exported_syms` set hold 0..2 entries with symbolic names, for a symbolic accessed name; z3 decides that "
            "a value is pushed iff the name is in both, that it is that name's value, and that every refusal is an "
            "exception restoring exactly the receiver; and the real insert_imported_namespace (unqualified import) "
            "copies exactly the exported definitions. Part B (loader kernel): the real import arm of load_toplevel_items_ is "
            "executed on one import (with / without alias; file seen before or not; read / parse succeed or fail) with "
            "reading, parsing and the recursive load stubbed and insert_imported_namespace recording its calls; decided: "
            "every resolved import runs that step exactly once with its alias, the importing and the imported namespace. "
            "Part C (checker kernel): the real TypeCheckVisitor::infer_namespace_access is executed on a receiver that resolves to a "
            "namespace with 0..2 values / exported names (symbolic names; item a named function, an anonymous function or an Int) "
            "or to a local, a non-variable, nothing or another value; decided: defined-but-not-exported and undefined names get an "
            "Error-severity diagnostic at the accessed symbol, an exported name gets none and is typed from its own value. "
            "Part D (loader fun-arm kernel): the real `fun` arm of load_toplevel_items_ on one public / non-public definition from a "
            "namespace that may already hold (and export) the same or another name; decided: afterwards the name is exported iff "
            "this definition is public, it is defined, and no other name's export status changes. "
            "Native two-file, diamond, duplicate-import and redefinition projects (run and check) are the user-visible oracle.",
    "note": "Trusted: rsx, association-list model of FxHashMap/FxHashSet, z3. In part C check_expr on the receiver, get_var, "
            "Type::from_value and fun_info are stubs and only severity and position of diagnostics are inspected. Path resolution, "
            "the contents of cyclically loaded files, and export maintenance for items other than `fun` (types and methods are not "
            "in exported_syms) are outside the claim.",
    "design_ref": "DESIGN.md section 6, C34",
}

_WALK = ("every expression kind, every built-in function kind and built-in method kind (argument counts 0..N) and every "
         "other call receiver is driven through the real eval_expr dispatcher: the NotEvaluated arm queues "
         "sub-expressions, each evaluates to a fresh symbolic Value (symbolic Value_ variant, 64-bit Int/Float payloads, "
         "opaque aggregates), and the later arms run on the operand stack the dispatcher itself produced")

EXTRA["C07"] = {
    "text": "Bounded symbolic model checking of error-and-resume, one failing step at a time: " + _WALK + ". On every "
            "feasible path where a step returns Err((RestoreValues, _)) the real restore_stack_frame is applied and the "
            "step is executed a second time with the same free decisions. Decided per path: the operand stack after the "
            "restore equals the stack before the step (same values, same order), the resumed step fails with the same "
            "error (message operands and position) and leaves the same stack, i.e. the error is stable under any number "
            "of :resume. SAT candidates are replayed in a scripted JSON session (input, :resume, :resume; responses must "
            "be equal). Bound: argument counts 0..2 (quick) / 0..3, one match case, blocks of 0..1 expressions.",
    "note": "Trusted: rsx, std models, z3 (path feasibility); 'a step is a function of entry, state, operands and "
            "environment', opaque data functional in its inputs. Candidates on over-approximated (tainted) paths count "
            "only when natively reproduced. 37 genuine call sites with a wrong RestoreValues order are recorded in "
            "known_findings.jsonl and reported as KNOWN-FINDING.",
    "design_ref": "DESIGN.md section 6, C07",
}

EXTRA["C02"] = {
    "text": "Bounded symbolic model checking of panic-freedom of each evaluation step's own code: " + _WALK + ". Every "
            "panic!/unreachable!/assert!/expect/unwrap, index, slice and (dev-profile) arithmetic site reached under a "
            "satisfiable path condition is a candidate; the solver's model picks the operand kinds and the generated "
            "call is run on the real binary (exit 101 confirms). Bound: argument counts 0..3 (quick) / 0..4, <= 6 "
            "dispatcher steps per expression.",
    "note": "Trusted: rsx, std models, z3. Whole-program runs, Rust-stack overflow on deeply nested values, panics inside "
            "opaquely modelled std calls, indices computed from opaque (string/list) payloads (an index into an unmodelled "
            "collection is a tainted panic candidate, confirmed natively - e.g. by a stale enum constructor - or dropped) and the parser/checker "
            "(C01) are outside the claim. Arithmetic at integer limits is decided exactly by C04.",
    "design_ref": "DESIGN.md section 6, C02",
}

EXTRA["C24"] = {
    "text": "Bounded symbolic model checking of the sandbox gate: " + _WALK + ", with env.enforce_sandbox = true. Every "
            "unmodelled std / third-party call an arm reaches is recorded; decided per path: no effect sink (std::fs, "
            "File, process::Command, stdin, set_current_dir, Path exists/metadata/read_dir) is reachable. Candidates "
            "are confirmed under `garden playground-run` in a scratch directory with evidence of an effect (directory "
            "or file changed, file content or stdin line echoed, run blocked). A syntactic companion regenerated each "
            "run checks that effect APIs occur in eval.rs only inside the two dispatchers and the import helpers.",
    "note": "Trusted: rsx, std models, z3, the fixed sink pattern (listed in evidence with the census of all unmodelled "
            "calls reached). Reads through `import`, dbg/print output, get_env and path canonicalisation of the "
            "program's own source path are outside the claim.",
    "design_ref": "DESIGN.md section 6, C24",
}

EXTRA["C14"] = {
    "text": "Bounded symbolic model checking of the real is_subtype (garden_type.rs) over ALL well-formed, error-free "
            "types up to depth 2 (quick) / 3 over a fixed signature (Any; NoValue/Int/String/List/Option/Result with their "
            "arities; tuples and function types of arity <= 2; type parameters T, U): the function body is executed on "
            "symbolic type templates (symbolic variant tag, name, arity, children) by merged per-invocation summaries, "
            "and z3 decides in single queries reflexivity, transitivity, Any top, NoValue bottom, covariance of tuples "
            "and user-defined types and contravariant-parameter / covariant-result function subtyping (both "
            "directions, so a dropped comparison is caught). Models are replayed through `garden verif subtype`.",
    "note": "Trusted: rsx, z3, atom model of type names. Bounded (depth, arity, signature), not a proof; ill-formed "
            "arities and Error types are outside the property.",
    "design_ref": "DESIGN.md section 6, C14",
}

EXTRA["C15"] = {
    "text": "Bounded symbolic model checking of the real unify / unify_all (type_checker.rs) on type templates of depth 1 "
            "(both tiers; depth 2 does not finish within an hour): for every feasible path returning a combined type u the real is_subtype is executed on (a,u) "
            "and (b,u) and z3 decides both hold; unify(t,t) returns Some(t) (structural equality, merged); unify_all "
            "over 2 (quick) / 3 elements covers every element. Replay through `garden verif unify` / `subtype`. "
            "Part B (join data-flow kernel): each join site of the real checker - check_match (inferring and checking), "
            "infer_if, infer_try, the list and dict literal arms of infer_expr_, the list arm of check_expr_ - is executed "
            "with per-element inference stubbed to one distinct type token per element and unify / unify_all stubbed to "
            "record their input; decided on every path (0..2 elements quick / 0..3, match 1..2 arms, every pattern shape): the join receives "
            "exactly the tokens of all elements, once, and in inferring mode the site returns a type built from the join's "
            "result. Replay: ill-typed programs per site and element position through `garden check`.",
    "note": "Trusted: rsx, z3, structural model of derive(PartialEq) on Type. Bounded, not a proof. Part B assumes the "
            "per-element inference functions return the element's type (that is C16, not applicable here); the call sites "
            "are covered only as data flow from element types to the join and from the join to the site's result.",
    "design_ref": "DESIGN.md section 6, C15",
}

EXTRA["C13"] = {
    "text": "Bounded symbolic model checking of the real `impl PartialEq for Value_` (through the derived equality of "
            "Value over Rc<Value_>) on two independently built value templates of depth 1 (quick) / 2: symbolic variant "
            "among the literal-syntax kinds, 64-bit ints, finite doubles, string atoms, lists/tuples/dicts of symbolic "
            "length <= 2, Bool/Unit/Option/Result values, structs. The function is executed by merged per-invocation "
            "summaries and z3 decides in single queries that a == b iff structurally equal (bit-equal for floats), and "
            "reflexivity, symmetry, transitivity. Models are rendered as literals and run on the real binary "
            "(`a == b`, `a != b`).",
    "note": "Trusted: rsx, z3, models of rpds::Vector / HashTrieMap equality and of std's Rc<T: Eq> pointer shortcut; "
            "runtime_type modelled as determined by the type name. Functions, closures and namespaces are outside.",
    "design_ref": "DESIGN.md section 6, C13",
}

_LEX = ("the real lex / lex_between (lex.rs) executed on a symbolic source text, each character an arbitrary Unicode scalar "
        "value whose UTF-8 length class is decided by solver-checked forking, with the four lazy_static regexes compiled by "
        "the real regex-automata crate from the pattern literals in lex.rs and simulated as byte-level Thompson NFAs "
        "(leftmost-first), LinePositions as a model")

EXTRA["C01"] = {
    "text": "Bounded symbolic model checking of the lexer, where byte offsets meet chars: " + _LEX + ". Decided for every "
            "source of 0..2 (quick) / 0..3 characters: no panic obligation is satisfiable (every &s[a..b] on char "
            "boundaries, no index or arithmetic panic) and the main loop terminates within the unwinding bound; the real "
            "unescape_string (parser.rs) is then executed on every string token the lexer produced, as the parser does. "
            "Counterexamples are written to a file and run through `garden check` (exit 101 confirms).",
    "note": "Trusted: rsx, the NFA simulation (validated each run against the real lexer through `garden verif lex`), z3. "
            "Of the parser only unescape_string is inside the claim; the recursive descent over token vectors and Rc trees, "
            "the checker and the formatter are outside it - in particular parse_float / parse_int on number tokens (a seeded "
            "change there, C01-3, is not detected: DESIGN.md section 23).",
    "design_ref": "DESIGN.md section 6, C01",
}

EXTRA["C23"] = {
    "text": "Bounded symbolic model checking of token positions and Position::merge: (1) " + _LEX + "; for every token "
            "and comment position on every path z3 decides start <= end <= len on char boundaries, line_number = LF "
            "count before start, column = bytes since the last LF, end_line_number / end_column likewise for the end "
            "offset (sources of 2 arbitrary characters and 3 over an 8-symbol alphabet with quote, LF, backslash, a "
            "2-byte letter; thorough 3 arbitrary / 4 over the alphabet). (2) the real Position::merge on two fully "
            "symbolic positions consistent w.r.t. uninterpreted monotone line/column functions yields a consistent "
            "position. (3) reporting kernel: the real syntax_check::check (what `garden check --json` prints) is executed with "
            "parsing / loading / checking stubbed to hand it parse errors and diagnostics with fully symbolic positions and "
            "serde_json::to_string recording what is serialised; decided: every reported line/column field is the "
            "position's own (+1 for the 1-indexed lines). Replay through `garden verif lex` against an independent "
            "byte-level oracle, multi-line diagnostics through `garden check --json`, and Position::merge counterexamples "
            "through 20 incomplete programs (merges whose second position ends before the first) whose reported ranges must be "
            "ordered and inside their lines.",
    "note": "Trusted: rsx, NFA simulation, z3. Positions built elsewhere (Position::todo, diagnostics widened to a line, "
            "LSP ranges - C29 -, the JSON session's own rendering) are outside the claim.",
    "design_ref": "DESIGN.md section 6, C23",
}

EXTRA["C29"] = {
    "text": "Bounded symbolic model checking of the LSP conversion functions (lsp.rs): offset_to_lsp_position, "
            "line_char_to_offset and whole_document_range executed on a symbolic document of 0..3 (quick) / 0..4 "
            "characters, each any Unicode scalar value (LF, CR, 1-4 byte UTF-8, 1-2 unit UTF-16 all arise). Decided: "
            "offset -> (line, UTF-16 column) -> offset is the identity at every char boundary; line_char_to_offset "
            "returns a char boundary inside the document for arbitrary (line, character); the end of "
            "whole_document_range converts back to the document length; no slice panic. Replay through "
            "`garden verif lsp-conv`.",
    "note": "Trusted: rsx, str/char models (rfind, find, lines, encode_utf16, char_indices), z3. Equality of "
            "server-returned edits with the CLI refactorings (whole handlers) is outside the claim.",
    "design_ref": "DESIGN.md section 6, C29",
}

EXTRA["C09"] = {
    "text": "Bounded symbolic model checking of the command-action kernel of the JSON session: start states are the idle "
            "state and, for every expression kind and call form, the top-level state in which the real dispatcher "
            "stopped with an error (step driver + real restore_stack_frame). From each, the real handle_run_request "
            "arms for :resume / :skip / :abort / :replace are executed (1 command quick, 2 thorough) followed by "
            ":resume, each running the real eval loop on whatever is pending. Decided: no panic obligation is reachable "
            "and every command returns one Response. Candidates are replayed as scripted `garden json` sessions (every "
            "request answered, a final probe still answered). Part B (value-balance kernel, an inductive step): from "
            "every balanced stopped state within the bound (1..2 frames, 0..2 pending entries, each popping 0..1 operands "
            "(thorough 0..2) with a symbolic value_is_used flag, operand stacks of height 0..3) one request - the real "
            ":resume / :skip / :abort / :replace arms or a new evaluation through the real eval_toplevel_exprs_then_stop - "
            "runs the real eval loop (frame exit, restore_stack_frame, pop_to_toplevel) with eval_expr replaced by a stub "
            "that pops its operands, fails or completes; z3 decides that the state afterwards is balanced again and no "
            "pop finds an empty stack, so by induction no request sequence of any length reaches a missing operand. Part C: a "
            "suspended `uv = <rhs>` / `uv += <rhs>` (failed right-hand side pending above it) followed by `:forget_local uv` "
            "or nothing, then :skip / :replace 42 / :resume, then :resume, through the real request arms and the real "
            "Bindings operations: no panic, one Response each.",
    "note": "Part B abstracts each pending entry to (operands popped, value_is_used) and assumes failing steps restore "
            "exactly what they popped (C07); a broken step is reported only when a continuation found by the same engine "
            "kills a real session on a library of 11 stopped programs. "
            "Trusted: rsx, std models, z3; pending sub-expressions evaluate to one fresh symbolic value. The reader "
            "thread, stdin framing, serde_json and the ~25 printing commands of run_command are outside the claim; quick "
            "uses one representative built-in per call form.",
    "design_ref": "DESIGN.md section 6, C09",
}

EXTRA["C12"] = {
    "text": "Bounded symbolic model checking of the string-literal kernel of value printing: for a symbolic string of "
            "0..2 (quick) / 0..3 characters, each any Unicode scalar value, the real escape_string_literal is executed, "
            "its output followed by a context (nothing, or a delimiter and one arbitrary character) is lexed by the real "
            "lexer (STRING_RE as regex-automata NFA) and the first token fed to the real unescape_string. Decided: the "
            "first token is exactly the escaped literal and unescaping returns the original string with no diagnostic. "
            "Replay: print a list containing the string with string_repr and evaluate the printed text. Part B (display "
            "template kernel): the real Value::display is executed on String / List / Tuple / Dict values (0..2 elements quick, "
            "0..3) with escape_string_literal and nested display calls stubbed to markers and format! modelled positionally "
            "({:?} yields a DEBUG marker); decided: the printed text is exactly the literal template over escaped strings, "
            "dict entries in key order. Part C (numbers): the real Float / Int arms of Value::display on a symbolic finite f64 / "
            "i64 with std's `{}` formatting as a marker naming the formatted term; decided: the printed text is that marker of "
            "the value itself (floats: optionally followed by `.0`); replay: 16 floats and 6 ints, bare and nested, printed and "
            "re-read.",
    "note": "Trusted: rsx, NFA simulation, z3, std's shortest round-trip formatting of f64 / i64 (whether `.0` must be appended "
            "is covered by the native round trip only). The templates for enum variants, structs and functions are outside "
            "the kernels; the list / tuple / dict templates are part B, numbers part C.",
    "design_ref": "DESIGN.md section 6, C12",
}

EXTRA["C03"] = {
    "text": "Bounded symbolic model checking of the infix loop of the real parse_expression (parser.rs) with "
            "token_as_binary_op, TokenStream::peek/pop, Position::merge, Expression::new and IdGenerator::next executed "
            "for real, on token streams x1 op1 x2 ... xk whose operator tokens are symbolic: all 21 operator strings "
            "(read from the source) for chains of up to 3 (quick) / 4 operands, each operand of a chain up to 3 an atom or a "
            "parenthesised atom (shape forked), three operators and atom operands for chains up to 6. "
            "Decided on every path: the returned tree is the left fold ((x1 op1 x2) op2 x3)... with the operators in "
            "source order and no diagnostic, and the operator strings map to pairwise distinct kinds. Replay through "
            "`garden reftest-ast` on the generated chain.",
    "note": "Trusted: rsx, z3; the abstraction that parse_expression_no_trailing consumes one operand token and returns a "
            "non-operator expression (for `( atom )` it consumes the three tokens). Whole-file parsing is outside.",
    "design_ref": "DESIGN.md section 6, C03",
}
