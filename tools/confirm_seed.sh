#!/bin/bash
# usage: confirm_seed.sh <id>   (worktree /tmp/seed/<id> with the patch applied, target /tmp/seed/<id>-target)
id="$1"; wt=/tmp/seed/$id; tgt=/tmp/seed/$id-target; log=/tmp/seed/$id-confirm.log
export CARGO_NET_OFFLINE=true CARGO_TARGET_DIR=$tgt
{
echo "== diff"; git -C $wt diff --stat
echo "== build"; (cd $wt && cargo build --offline --bin garden 2>&1 | tail -2)
echo "== tests"; (cd $wt && timeout 3000 cargo test --offline --bin garden -- --test-threads 8 2>&1 | grep -E "^test result|FAILED|failed" | head -10)
echo "== nrepl alone"; (cd $wt && timeout 600 cargo test --offline --bin garden reftest_nrepl 2>&1 | grep -E "^test result" )
echo "== done"
} > $log 2>&1
