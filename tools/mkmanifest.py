#!/usr/bin/env python3
"""Regenerate /verif/MANIFEST.json from the table below (keeps it schema-valid)."""
import json
import os

VERIF = os.path.dirname(os.path.dirname(os.path.abspath(__file__)))

TECH = "bounded symbolic execution of the real Rust source (syn-extracted) by the rsx interpreter; obligations decided by z3 (cvc5 cross-check), SAT models replayed against the real binary"

CLAIMED = {
    "C04": {
        "text": "Bounded symbolic model checking of one evaluation step: the real eval_expr dispatcher arm plus "
                "eval_int_binop / eval_float_binop / eval_assign_update are executed symbolically with both operands "
                "as unconstrained 64-bit bit-vectors (resp. finite IEEE doubles); z3 decides, for every operator and "
                "every path, that the result equals the documented arithmetic, that exceptions occur exactly where "
                "documented, that no Rust panic (overflow, division) is reachable, and that `+=`/`-=` store what "
                "`+`/`-` compute. Bound: one step; `**` exactness rests on an uninterpreted exact-power model of "
                "i64::checked_pow that is validated concretely against the binary, constrained by closed-form lemmas "
                "(exponents 0 and 1; bases 0, 1, -1, 2, -2; |base| >= 2 with exponent >= 64 overflows) so that code "
                "bypassing checked_pow for those cases is decided against the exact power.",
        "note": "Trusted: the rsx interpreter's Rust-subset semantics and std models (listed in evidence), z3; "
                "Value::unit/bool thread_local constructors and message formatting are modelled. Quick decides the dev "
                "profile (overflow checks on); thorough also the release profile.",
        "design_ref": "DESIGN.md section 6, C04",
    },
}

CLAIMED["C10"] = {
    "text": "Bounded symbolic model checking of the abort step: the real handle_run_request(\":abort\") "
            "(Command::from_string, run_command's Abort arm, Stack::pop_to_toplevel) is executed from an arbitrary "
            "stopped machine state (1..3 frames; exprs_to_eval, evalled_values, block_bindings, bindings_next_block of "
            "the top-level frame of every length within the bound, elements opaque), followed by the real :resume arm "
            "(eval_to_response -> eval). Decided: one frame remains, only the bottom value and block 0 (the top-level "
            "variables) survive, nothing is pending, and :resume is a no-op. Bound: vector lengths <= 3 (quick) / 4.",
    "note": "Trusted: rsx semantics and std models, z3. Elements are identity tokens (the abort path never inspects "
            "them). Namespace contents and prev_call_args caches are outside the claim.",
    "design_ref": "DESIGN.md section 6, C10",
}

CLAIMED["C06"] = {
    "text": "Bounded symbolic model checking of the block discipline of one frame, as an inductive step: invariant "
            "I = (live bindings blocks = 1 + pending entries whose own arm pops a block). Part A executes every "
            "(ExpressionState, kind) arm of the real eval_expr for Match/If/While/ForIn/Try (and the NotEvaluated arm "
            "of every other kind) on opaque operands and checks on every feasible non-error path that pushes, pops and "
            "queued popper entries balance; which arms are poppers is derived from the code, not listed. Part B "
            "executes the real Break and Continue arms (eval_break / eval_continue) from every I-state with 0..3 "
            "(thorough 5) pending entries of any popper / non-popper class above the innermost while/for entry and "
            "checks I afterwards and that the loop's continuation returns the block count to its pre-loop value. Part C "
            "executes the real Return arm from every I-state of the top-level frame (the one frame that outlives a "
            "return) and checks I afterwards (nothing pending, only the top-level block live).",
    "note": "Trusted: rsx semantics, std models, z3 (path feasibility; shapes are forked). The last step from I to "
            "'variable not visible' is a paper argument (let writes to the innermost block, lookups scan live blocks). "
            "One frame (in a called function return drops the frame with all its blocks: the real frame exit of eval, exercised by C08/C09B); error outcomes are excluded (C07/C09).",
    "design_ref": "DESIGN.md section 6, C06",
}

CLAIMED["C08"] = {
    "text": "Bounded symbolic model checking of the interrupt step: the real `eval` loop is executed symbolically with "
            "eval_expr replaced by a recording stub, from an arbitrary frame state (1..2 frames, 1..3 pending entries, "
            "the top entry in each of the five ExpressionState shapes) with the interrupt flag, the tick counter and "
            "both limits symbolic. z3 decides on every path that an interrupted iteration returns Interrupted only "
            "when the flag is set, runs no step, clears the flag and leaves entries, values, blocks and frames "
            "identical, and that the next eval() (the resume) hands the stub exactly the interrupted entry with its "
            "state. By induction on the number of interrupts, interrupted-and-resumed runs pass through the same "
            "state sequence. A native sweep (interrupt at every tick of two programs via the cfg hook, resume each "
            "time) is the user-visible oracle and replay.",
    "note": "Trusted: rsx semantics, std models, z3; 'a step is a function of the machine state' (the stub). The atomic "
            "flag is sequential here (cross-thread ordering is C31). The tick counter differs between the runs by "
            "design; programs that hit the tick limit are outside the claim.",
    "design_ref": "DESIGN.md section 6, C08",
}

CLAIMED["C25"] = {
    "text": "Bounded symbolic model checking of the budget step: the real `eval` loop is executed for 2 (quick) / 3 "
            "(thorough) consecutive iterations with eval_expr stubbed and ticks / tick_limit / stack_limit symbolic "
            "64-bit: every iteration that pops an entry advances ticks by exactly one before any evaluation work, a "
            "step runs only while ticks < tick_limit and stack.len() <= stack_limit, and the limit errors run no step "
            "and restore the state; hence at most tick_limit steps run. The real bodies of the sandbox entry points "
            "(run_sandboxed_playground, the sandboxed test runner) are executed up to their first evaluation call, "
            "which must see tick_limit = Some, stack_limit = Some, enforce_sandbox = true.",
    "note": "Trusted: rsx, std models, z3. The cost of a single step (a built-in looping over a long string, deep "
            "display recursion) and blocking built-ins other than those C24 covers are outside the claim. Env::new is "
            "modelled by the limit fields of its own struct literal.",
    "design_ref": "DESIGN.md section 6, C25",
}

try:
    import sys as _sys
    _sys.path.insert(0, os.path.dirname(os.path.abspath(__file__)))
    from claims_extra import EXTRA as _EXTRA
    CLAIMED.update(_EXTRA)
except ImportError:
    pass

NOT_YET = "check not built yet in this revision of /verif (planned, see DESIGN.md section 6)"

NA = {
    "C05": "whole-program differential equivalence over unbounded runs on Rc trees and hash maps: no encoder within reach executes `eval` on a symbolic program (DESIGN 7)",
    "C11": "incremental-vs-batch equality is a property of the whole Env across requests (namespaces, VFS, prelude load); outside every encoder here",
    "C16": "soundness of the 3 kLoC bidirectional checker against the runtime is a relation between two recursive traversals over symbolic ASTs; beyond reach (C14/C15 cover its lattice operations)",
    "C17": "formatter is a ten-phase whole-file pipeline re-lexing and re-parsing heap strings; needs the full recursive-descent parser under symbolic input",
    "C18": "same pipeline as C17 (idempotence needs two full passes)",
    "C19": "rename depends on Env::new (prelude parse), the whole type checker and program execution: whole-program",
    "C20": "extract variable/function: same dependency set as C19 plus free-variable analysis and behavioural equivalence of two runs",
    "C21": "wrap-in-dbg / add-type-annotation: same as C19/C20",
    "C22": "check --fix: all lints (whole-AST visitors) plus byte-level edit application plus behavioural equivalence",
    "C26": "verdict independence is a whole-run property of eval_tests over Env; its only small kernel (pop_to_toplevel) is C10",
    "C27": "eval-up-to compares a stopped run with an instrumented full run of the same program: whole-program",
    "C28": "LSP server liveness runs through serde_json, every handler, the parser and checker; the dispatcher alone cannot show handlers do not panic",
    "C30": "concurrency (reader, session workers, flusher, writer; mpsc, Mutex, thread::spawn): Kani does not model threads and a hand-written interleaving model would not be the real code",
    "C31": "same as C30: the property is about where an atomic store lands relative to another thread's dequeue",
    "C32": "the prelude functions are Garden source: deciding them needs a second symbolic executor for Garden whose built-in models (substring, index_of, append, ...) would be unverified re-implementations of Rust code; not built — see DESIGN.md section 14",
    "C33": "print/parse round trip over all syntax trees needs the whole parser on symbolic token sequences; out of reach (C03 covers the one loop the property singles out)",
}

PLANNED = ["C01", "C02", "C03", "C06", "C07", "C08", "C09", "C10", "C12", "C13", "C14", "C15", "C23", "C24", "C25",
           "C29", "C32", "C34"]


def main():
    props = [json.loads(l) for l in open(os.path.join(VERIF, "properties.jsonl"))]
    ids = [p["id"] for p in props]
    checks = []
    for pid in ids:
        if pid in CLAIMED and os.path.exists(os.path.join(VERIF, "checks", pid.lower() + ".py")):
            c = CLAIMED[pid]
            checks.append({
                "property_id": pid,
                "quick_cmd": f"./check {pid} quick",
                "thorough_cmd": f"./check {pid} thorough",
                "evidence_file": f"/verif/evidence/{pid}.json",
                "replay_cmd_template": "cat {path}",
                "engine": c.get("engine", "rsx"),
                "level_claimed": {"category": "model_checking", "text": c["text"], "design_ref": c["design_ref"]},
                "level_note": c["note"],
                "technique": c.get("technique", TECH),
            })
    claimed = {c["property_id"] for c in checks}
    na = []
    for pid in ids:
        if pid in claimed:
            continue
        na.append({"property_id": pid, "reason": NA.get(pid, NOT_YET)})
    hook_commits = []
    hc = os.path.join(VERIF, "hook_commits.txt")
    if os.path.exists(hc):
        hook_commits = [l.split()[0] for l in open(hc) if l.strip() and not l.startswith("#")]
    m = {
        "version": 1,
        "setup_cmd": "./setup.sh",
        "hooks": {
            "guard": "--cfg wilfred_garden_verif",
            "enable": "RUSTFLAGS='--cfg wilfred_garden_verif --check-cfg cfg(wilfred_garden_verif)' cargo build --offline --bin garden (CARGO_TARGET_DIR=/verif/.cache/target); done by vlib/native.py on every check run",
            "baseline_off_cmd": "cd /repo && cargo test --workspace --no-fail-fast --offline",
            "source_commits": hook_commits,
            "add_only": True,
        },
        "engines": [
            {"name": "rsx", "path": "/verif/rsx", "serves_properties": sorted(claimed),
             "kind_free_text": "Rust-subset symbolic executor: syn-extracted AST of the real source -> path-forking "
                               "symbolic interpreter (python) -> z3 bit-vector/FP/UF queries; cvc5 cross-check"},
            {"name": "verif-extract", "path": "/verif/extract", "serves_properties": sorted(claimed),
             "kind_free_text": "syn 2 front end dumping real source items as JSON at every run; regex-automata NFA dump"},
        ],
        "checks": checks,
        "not_applicable": na,
        "notes": "Exit codes: 0 held within bounds; 1 with VIOLATION line only after the solver model reproduced on the "
                 "real binary; 2 inconclusive (encoder could not handle the current source / solver cap / model did not "
                 "reproduce) — never reported as a violation. Known findings: /verif/known_findings.jsonl.",
    }
    with open(os.path.join(VERIF, "MANIFEST.json"), "w") as f:
        json.dump(m, f, indent=1)
    print(f"claimed={sorted(claimed)} n/a={len(na)}")


if __name__ == "__main__":
    main()
