#!/bin/bash
# usage: run_tier.sh <tier> <id>...   runs checks sequentially from /verif, logs to /var/tmp/verif-tier-<tier>.log
cd /verif
tier="$1"; shift
log=/var/tmp/verif-tier-$tier.log
for id in "$@"; do
  t0=$(date +%s)
  timeout ${VERIF_TIER_CAP:-7200} ./check $id $tier > /var/tmp/verif-tier-$tier-$id.out 2>&1; rc=$?
  t1=$(date +%s)
  echo "$id tier=$tier exit=$rc secs=$((t1-t0)) $(grep -c '^VIOLATION' /var/tmp/verif-tier-$tier-$id.out) violations $(grep -c '^INCONCLUSIVE' /var/tmp/verif-tier-$tier-$id.out) inconclusive" >> $log
done
echo "ALL DONE" >> $log
