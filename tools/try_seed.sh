#!/bin/bash
# usage: try_seed.sh <seed dir name under /verif/seeded> <check id>...   (applies the patch to /repo, runs checks, undoes it)
cd /verif
seed="$1"; shift
git -C /repo status --short | grep -q . && { echo "repo not clean"; exit 3; }
git -C /repo apply /verif/seeded/$seed/patch.diff || { echo "patch does not apply"; exit 3; }
for id in "$@"; do
  timeout 1500 ./check $id quick > /tmp/try_${seed}_$id.log 2>&1; rc=$?
  echo "seed=$seed check=$id exit=$rc $(grep -c '^VIOLATION' /tmp/try_${seed}_$id.log) violations"
  grep "^  site=" /tmp/try_${seed}_$id.log | cut -c1-220
  grep "^INCONCLUSIVE" /tmp/try_${seed}_$id.log | cut -c1-220 | head -3
done
git -C /repo checkout -- .
git -C /repo status --short | head -2
