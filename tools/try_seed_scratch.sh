#!/bin/bash
# usage: try_seed_scratch.sh <seed dir name under /verif/seeded> <check id>...
# Tests a seed in a scratch worktree of /repo (VERIF_REPO / VERIF_TARGET), leaving /repo untouched.
cd /verif
seed="$1"; shift
wt=/tmp/seedtest-$seed
git -C /repo worktree add --detach $wt HEAD -q || exit 3
git -C $wt apply /verif/seeded/$seed/patch.diff || { echo "patch does not apply"; git -C /repo worktree remove --force $wt; exit 3; }
for id in "$@"; do
  VERIF_REPO=$wt VERIF_TARGET=/tmp/seedtest-target timeout 2400 ./check $id quick > /tmp/try_${seed}_$id.log 2>&1; rc=$?
  echo "seed=$seed check=$id exit=$rc $(grep -c '^VIOLATION' /tmp/try_${seed}_$id.log) violations"
  grep "^  site=" /tmp/try_${seed}_$id.log | cut -c1-220
  grep "^INCONCLUSIVE" /tmp/try_${seed}_$id.log | cut -c1-220 | head -3
done
git -C /repo worktree remove --force $wt
git -C /repo worktree prune
git -C /verif checkout -- evidence 2>/dev/null
