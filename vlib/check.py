"""Check scaffolding: obligations, vacuity witnesses, replay, known findings,
cvc5 cross-check, evidence file, exit status."""
import hashlib
import json
import os
import random
import subprocess
import sys
import time
import traceback

VERIF = os.path.dirname(os.path.dirname(os.path.abspath(__file__)))
sys.path.insert(0, VERIF)

from rsx import core  # noqa: E402
from rsx.core import Decider, STATS, Unsupported, UnwindExceeded  # noqa: E402

KNOWN_FILE = os.path.join(VERIF, "known_findings.jsonl")


def load_known():
    known, fixed = [], []
    if os.path.exists(KNOWN_FILE):
        for line in open(KNOWN_FILE):
            line = line.strip()
            if not line or line.startswith("#"):
                continue
            if line.startswith("fixed:"):
                fixed.append(line)
                continue
            known.append(json.loads(line))
    return known, fixed


class Check:
    def __init__(self, pid, title, default_timeout_ms=None):
        self.pid = pid
        self.title = title
        self.tier = os.environ.get("VERIF_TIER", "quick")
        for i, a in enumerate(sys.argv):
            if a == "--tier" and i + 1 < len(sys.argv):
                self.tier = sys.argv[i + 1]
        if self.tier not in ("quick", "thorough"):
            self.tier = "quick"
        try:
            self.seed = int(os.environ.get("VERIF_SEED", "0"))
        except ValueError:
            self.seed = 0
        self.rng = random.Random(self.seed)
        self.t0 = time.time()
        tmo = default_timeout_ms or (20000 if self.tier == "quick" else 300000)
        self.decider = Decider(timeout_ms=tmo)
        self.known, self.fixed = load_known()
        self.obligations = []       # dicts
        self.samples = []
        self.violations = []        # (site, what, replay_path)
        self.known_hits = []
        self.inconclusive = []      # strings
        self.vacuity = []
        self.functions = {}         # name -> info
        self.bounds = {}
        self.assumptions = []
        self.models_used = set()
        self.abstractions = set()
        self.havocs = set()
        self.validated = 0
        self.validation_mismatches = []
        self.replays = 0
        self.paths = 0
        self.extra = {}
        self._replay_cache = {}
        self._pending = {}
        self.unconfirmed = []

    # -------------------------------------------------------------- records
    def note_interp(self, I):
        for (name, file, l0, l1, h) in I.called:
            self.functions[name] = {"fn": name, "file": file, "lines": [l0, l1], "hash": h}
        self.havocs |= set(I.havocs)

    def note_paths(self, results):
        self.paths += len(results)
        for r in results:
            if r.kind == "unwind":
                self.inconclusive.append(f"unwinding bound hit: {r.value}")

    def sample(self, obj):
        if len(self.samples) < 12:
            self.samples.append(obj)

    # ---------------------------------------------------------- obligations
    def is_known(self, site):
        for k in self.known:
            if k.get("property") == self.pid and k.get("site") == site:
                return k
        return None

    def counterexample(self, name, site, what, replay, model_desc):
        """Handle a SAT obligation: replay natively, then classify."""
        # one native replay per site: further models at the same site share its verdict
        if site in self._replay_cache:
            rep = self._replay_cache[site]
            if rep.get("reproduced"):
                return "known" if self.is_known(site) else "violation"
        else:
            self.replays += 1
            try:
                rep = replay() if replay else {"reproduced": False, "detail": "no replay available"}
            except Exception as ex:  # replay machinery failure = inconclusive
                rep = {"reproduced": False, "detail": f"replay raised {ex!r}"}
            self._replay_cache[site] = rep
        if not rep.get("reproduced"):
            self.inconclusive.append(
                f"{name}: solver model did not reproduce natively ({rep.get('detail', '')[:300]}); model={model_desc}")
            return "not-reproduced"
        k = self.is_known(site)
        if k:
            self.known_hits.append((site, k.get("what", what)))
            return "known"
        d = os.path.join(VERIF, "replays", self.pid)
        os.makedirs(d, exist_ok=True)
        fn = os.path.join(d, hashlib.sha1(site.encode()).hexdigest()[:10] + ".json")
        with open(fn, "w") as f:
            json.dump({"property": self.pid, "site": site, "what": what, "model": model_desc,
                       "artefact": rep.get("artefact"), "observed": rep.get("detail")}, f, indent=1)
        self.violations.append((site, what, fn))
        return "violation"

    def prove(self, name, pc, claim, site=None, what="", replay=None, model_desc=None):
        """Discharge `pc => claim`.  replay: callable(model) -> dict(reproduced, artefact, detail)."""
        verdict, model = self.decider.prove(f"{self.pid}:{name}", pc, claim)
        ob = {"name": name, "verdict": verdict}
        if verdict == "sat":
            md = model_desc(model) if callable(model_desc) else str(model)[:300]
            ob["model"] = md
            ob["outcome"] = self.counterexample(name, site or name, what or name,
                                                (lambda: replay(model)) if replay else None, md)
        elif verdict == "unknown":
            self.inconclusive.append(f"{name}: solver returned unknown (cap {self.decider.timeout_ms} ms)")
        self.obligations.append(ob)
        return verdict, model

    # ------------------------------------------------- deferred (parallel) replay
    def prove_deferred(self, name, pc, claim, site, what="", replay=None, model_desc=None, soft=False):
        """Like prove(), but a SAT verdict is classified later by resolve_deferred(): one native replay per site,
        run in parallel.  A site listed in known_findings is reported as KNOWN-FINDING without replaying it.
        soft=True: the path is an over-approximation (tainted); a model that does not reproduce is only noted."""
        verdict, model = self.decider.prove(f"{self.pid}:{name}", pc, claim)
        ob = {"name": name, "verdict": verdict}
        if verdict == "sat":
            md = model_desc(model) if callable(model_desc) else str(model)[:300]
            ob["model"] = md
            k = self.is_known(site)
            if k:
                if not any(s == site for s, _ in self.known_hits):
                    self.known_hits.append((site, k.get("what", what)))
                ob["outcome"] = "known"
            else:
                p = self._pending.setdefault(site, {"replays": [], "what": what, "name": name, "model": md,
                                                    "soft": soft, "obs": []})
                p["soft"] = p["soft"] and soft
                if replay and len(p["replays"]) < 12:
                    # z3 objects are not thread-safe: everything that reads the model runs here, in the main
                    # thread; replay(model) returns either the final dict or a thunk doing only the native work
                    try:
                        prepared = replay(model)
                    except Exception as ex:
                        prepared = {"reproduced": False, "detail": f"replay preparation raised {ex!r}"}
                    thunk = prepared if callable(prepared) else (lambda prepared=prepared: prepared)
                    p["replays"].append((soft, thunk, md))
                p["obs"].append(ob)
        elif verdict == "unknown":
            self.inconclusive.append(f"{name}: solver returned unknown (cap {self.decider.timeout_ms} ms)")
        self.obligations.append(ob)
        return verdict, model

    def resolve_deferred(self, workers=8):
        from concurrent.futures import ThreadPoolExecutor
        items = list(self._pending.items())

        def run(item):
            site, p = item
            # several paths can share a site: try exact (untainted) paths first, a few candidates at most
            cands = sorted(p["replays"], key=lambda t: t[0])[:4]
            last = {"reproduced": False, "detail": "no replay available"}
            seen = set()
            for soft_, rp, md in cands:
                try:
                    last = rp()
                except Exception as ex:
                    last = {"reproduced": False, "detail": f"replay raised {ex!r}"}
                if last.get("reproduced"):
                    p["model"] = md
                    return last
                key = str(last.get("artefact"))
                if key in seen:
                    break
                seen.add(key)
            return last
        with ThreadPoolExecutor(max_workers=workers) as ex:
            reps = list(ex.map(run, items))
        self.replays += len(items)
        for (site, p), rep in zip(items, reps):
            if rep.get("reproduced"):
                d = os.path.join(VERIF, "replays", self.pid)
                os.makedirs(d, exist_ok=True)
                fn = os.path.join(d, hashlib.sha1(site.encode()).hexdigest()[:10] + ".json")
                with open(fn, "w") as f:
                    json.dump({"property": self.pid, "site": site, "what": p["what"], "model": p["model"],
                               "artefact": rep.get("artefact"), "observed": rep.get("detail")}, f, indent=1, default=str)
                self.violations.append((site, p["what"], fn))
                outcome = "violation"
            elif p["soft"]:
                self.unconfirmed.append({"site": site, "detail": rep.get("detail", "")[:200]})
                outcome = "unconfirmed-overapproximation"
            else:
                self.inconclusive.append(f"{p['name']}: solver model did not reproduce natively "
                                         f"({rep.get('detail', '')[:300]}); model={p['model']}")
                outcome = "not-reproduced"
            for ob in p["obs"]:
                ob["outcome"] = outcome
        self._pending = {}

    def reach(self, name, conds):
        """Vacuity witness: the conjunction must be satisfiable."""
        verdict, model = self.decider.sat(f"{self.pid}:reach:{name}", conds)
        self.vacuity.append({"name": name, "verdict": verdict})
        if verdict != "sat":
            self.inconclusive.append(f"vacuity witness {name} is {verdict} (harness does not reach its assertion)")
        return verdict == "sat", model

    def validated_against_impl(self, n=1):
        self.validated += n

    def validation_mismatch(self, what):
        self.validation_mismatches.append(what)
        self.inconclusive.append(f"translator validation mismatch: {what}")

    # ------------------------------------------------------------- cvc5
    def cross_check(self, max_queries=6, tlimit_ms=20000):
        dumps = STATS.smt_dumps
        if not dumps:
            return {"checked": 0}
        sat_ones = [d for d in dumps if d[2] == "sat"][:3]
        rest = [d for d in dumps if d[2] == "unsat"]
        self.rng.shuffle(rest)
        chosen = sat_ones + rest[:max_queries]
        agree, disagree, skipped = 0, 0, 0
        for name, assertions, verdict in chosen:
            import z3 as _z3
            _s = _z3.Solver()
            for a_ in assertions:
                _s.add(a_)
            smt = "(set-logic ALL)\n" + _s.sexpr() + "(check-sat)\n"
            try:
                r = subprocess.run(["cvc5", "--lang", "smt2", f"--tlimit={tlimit_ms}"], input=smt,
                                   capture_output=True, text=True, timeout=tlimit_ms / 1000 + 10)
            except subprocess.TimeoutExpired:
                skipped += 1
                continue
            out = r.stdout.strip().splitlines()
            ans = out[-1].strip() if out else ""
            if "(error" in r.stdout or "(error" in r.stderr or ans not in ("sat", "unsat"):
                skipped += 1
                continue
            if ans == verdict:
                agree += 1
            else:
                disagree += 1
                self.inconclusive.append(f"cvc5 disagrees with z3 on {name}: z3={verdict} cvc5={ans}")
        return {"checked": len(chosen), "agree": agree, "disagree": disagree, "no_answer": skipped}

    # ------------------------------------------------------------- finish
    def finish(self, level="model_checking", rule=None):
        cross = {}
        try:
            cross = self.cross_check()
        except FileNotFoundError:
            cross = {"checked": 0, "error": "cvc5 not found"}
        wall = time.time() - self.t0
        n_unsat = sum(1 for o in self.obligations if o["verdict"] == "unsat")
        n_sat = sum(1 for o in self.obligations if o["verdict"] == "sat")
        n_unk = sum(1 for o in self.obligations if o["verdict"] == "unknown")
        status = "held"
        if self.violations:
            status = "violation"
        elif self.inconclusive:
            status = "inconclusive"
        ev = {
            "property_id": self.pid,
            "tier": self.tier,
            "seed": self.seed,
            "level": level,
            "coverage": {
                "states": max(self.paths, 1),
                "transitions": max(len(self.obligations) + len(self.vacuity), 1),
                "traces_validated_against_impl": self.validated + self.replays,
                "samples": self.samples[:12] or [{"note": "no sample recorded"}],
                "explanation": "states = feasible symbolic paths enumerated through the encoded real functions; "
                               "transitions = solver queries discharged (obligations + vacuity witnesses); "
                               "traces_validated = concrete inputs run through both the encoding and the real "
                               "binary (translator validation) plus natively replayed solver models",
                "functions_encoded": sorted(self.functions.values(), key=lambda d: d["fn"]),
                "bounds": self.bounds,
                "obligations": len(self.obligations),
                "queries_unsat": n_unsat,
                "queries_sat": n_sat,
                "queries_capped": n_unk,
                "vacuity_witnesses": self.vacuity,
                "solver_s": round(STATS.solver_s, 3),
                "solver_calls": STATS.solver_calls,
                "cross_checked_cvc5": cross,
                "models_used": sorted(self.models_used),
                "abstractions": sorted(self.abstractions),
                "havocked_calls": sorted(self.havocs)[:80],
                "known_findings_hit": [{"site": s, "what": w} for s, w in self.known_hits],
                "inconclusive": self.inconclusive[:40],
                "unconfirmed_candidates_on_overapproximated_paths": self.unconfirmed[:40],
                "validation_mismatches": self.validation_mismatches[:20],
                "status": status,
                "exhaustive": False,
            },
            "assumptions": self.assumptions,
            "wall_s": round(wall, 2),
            "violations": len(self.violations),
        }
        ev["coverage"].update(self.extra)
        os.makedirs(os.path.join(VERIF, "evidence"), exist_ok=True)
        with open(os.path.join(VERIF, "evidence", f"{self.pid}.json"), "w") as f:
            json.dump(ev, f, indent=1, default=str)
        print(f"[{self.pid}] {self.title}: tier={self.tier} paths={self.paths} obligations={len(self.obligations)} "
              f"(unsat={n_unsat} sat={n_sat} capped={n_unk}) vacuity={len(self.vacuity)} "
              f"validated={self.validated} replays={self.replays} solver_s={STATS.solver_s:.1f} wall_s={wall:.1f}")
        for s, w in self.known_hits:
            print(f"KNOWN-FINDING: property={self.pid} {s}: {w}")
        for msg in self.inconclusive[:20]:
            print(f"INCONCLUSIVE: {msg}")
        if self.violations:
            for s, w, fn in self.violations:
                print(f"VIOLATION property={self.pid} replay={fn}")
                print(f"  site={s} what={w}")
            sys.exit(1)
        if self.inconclusive:
            sys.exit(2)
        sys.exit(0)


def run_check(main):
    """Wrap a check's main(): machinery failures are exit 2 (inconclusive), never an alarm."""
    # the cyclic collector repeatedly walks the (large, long-lived) program and result graphs: 3-4x of the run time.
    # Collect rarely; reference counting still frees almost everything at once.
    import gc
    gc.set_threshold(400000, 50, 50)
    try:
        main()
    except SystemExit:
        raise
    except (Unsupported, UnwindExceeded) as ex:
        print(f"INCONCLUSIVE: encoder could not handle the current source: {ex}")
        traceback.print_exc()
        sys.exit(2)
    except Exception as ex:
        print(f"INCONCLUSIVE: check machinery failed: {ex!r}")
        traceback.print_exc()
        sys.exit(2)
