"""Builders for symbolic interpreter-machine states (Env / Stack / StackFrame /
Value) shared by the step harnesses, plus the listed native models of the two
`thread_local!` constructors that the syn subset does not execute."""
import z3

from rsx.core import *  # noqa
from rsx.interp import Program, Interp

EVAL_FILES = ["src/eval.rs", "src/env.rs", "src/values.rs", "src/garden_type.rs", "src/parser/ast.rs",
              "src/parser/position.rs", "src/parser/diagnostics.rs", "src/commands.rs", "src/json_session.rs",
              "src/namespaces.rs", "src/type_defs.rs"]

# Formatting / message construction: opaque, no side effects (DESIGN 3.1, abstraction (3)).
OPAQUE_FNS = ["format_type_error", "format_type_error_with_suggestion", "display", "display_unless_unit",
              "as_ide_string", "as_string", "most_similar_var", "most_similar", "type_representation",
              "format_exception_with_stack", "top_frame_name", "describe_read_error", "join_with_and",
              # type-hint resolution walks hash maps of type definitions: opaque result, no machine-state effect
              "Type::from_hint", "Type::from_value", "Type::from_hints",
              # namespace table lookups / creation (hash maps of whole-file state; not part of the operand machine)
              "Env::get_or_create_namespace", "Env::get_namespace", "print_as_json"]

_prog_cache = {}


def program(files=None):
    key = tuple(files or EVAL_FILES)
    if key not in _prog_cache:
        p = Program(list(key))
        if p.errors:
            raise Unsupported("extractor errors: " + "; ".join(p.errors))
        _prog_cache[key] = p
    return _prog_cache[key]


def type_named(I, name):
    if ("Type", name.lower()) in I.p.methods and name in ("Unit", "Bool"):
        return I.call_user(I.p.methods[("Type", name.lower())], [], "Type")
    return Enum("Type", "UserDefined", {"kind": Enum("TypeDefKind", "Enum", []),
                                        "name": Struct("TypeName", {"text": Str(name)}), "args": Vec([])})


def mk_value(inner, ident=None):
    return Struct("Value", {"0": Rc(inner, ident)})


def v_int(x):
    return mk_value(Enum("Value_", "Int", [x if isinstance(x, Int) else Int(x)]))


def v_float(x):
    return mk_value(Enum("Value_", "Float", [x if isinstance(x, Float) else Float(x)]))


def v_string(s):
    return mk_value(Enum("Value_", "String", [s if isinstance(s, Str) else Str(s)]))


def v_enum(I, tyname, idx, payload=None, ident=None):
    return mk_value(Enum("Value_", "EnumVariant", {
        "type_name": Struct("TypeName", {"text": Str(tyname)}),
        "runtime_type": type_named(I, tyname),
        "variant_idx": Int(idx, 64, False),
        "payload": some(payload) if payload is not None else NONE}), ident)


def native_unit(I, args, node):
    """Model of Value::unit(): thread_local UNIT.with(|v| v.clone()) — one shared Rc."""
    return v_enum(I, "Unit", 0, ident=-1)


def native_bool(I, args, node):
    """Model of Value::bool(b): thread_local TRUE/FALSE clones."""
    b = I.deref(args[0])
    if I.branch(b):
        return v_enum(I, "Bool", 0, ident=-2)
    return v_enum(I, "Bool", 1, ident=-3)


NATIVES = {"Value::unit": native_unit, "Value::bool": native_bool}
NATIVE_NOTES = ["Value::unit()/Value::bool() (lazily initialised thread_local!) are modelled as constructors of the "
                "EnumVariant they hold (type_name Unit/Bool, variant_idx 0/0/1, shared Rc)"]


def mk_frame(values=None, exprs=None, nblocks=1, extra=None):
    fields = {
        "evalled_values": Vec(list(values or [])),
        "exprs_to_eval": Vec(list(exprs or [])),
        "bindings": Struct("Bindings", {"block_bindings": Vec(
            [Struct("BlockBindings", {"values": Map([])}) for _ in range(nblocks)])}),
        "bindings_next_block": Vec([]),
    }
    if extra:
        fields.update(extra)
    return Struct("StackFrame", fields, partial=True)


def mk_env(frames, extra=None):
    fields = {"stack": Struct("Stack", {"0": Vec(list(frames))})}
    if extra:
        fields.update(extra)
    return Struct("Env", fields, partial=True)


def mk_interp(prog, ctx, profile="dev", natives=None, opaque=None, **kw):
    nat = dict(NATIVES)
    if natives:
        nat.update(natives)
    return Interp(prog, ctx, profile=profile, natives=nat, opaque_fns=(opaque if opaque is not None else OPAQUE_FNS),
                  **kw)


def value_inner(v):
    """Value -> Value_ enum (through the Rc)."""
    r = v.fields["0"]
    return r.inner


def value_ident(v):
    return v.fields["0"].ident


def result_kind(r):
    """Result<..> returned by a step function -> 'Ok' | 'Err'."""
    if isinstance(r, Enum) and r.ty == "Result":
        return r.variant
    return None
