"""Native side: build the real binary from /repo's current tree and drive it
(CLI runs, JSON sessions).  Used only for replay and translator validation."""
import fcntl
import json
import os
import select
import subprocess
import time

VERIF = os.path.dirname(os.path.dirname(os.path.abspath(__file__)))
REPO = os.environ.get("VERIF_REPO", "/repo")
CACHE = os.path.join(VERIF, ".cache")
TARGET = os.environ.get("VERIF_TARGET", os.path.join(CACHE, "target"))   # override: testing a scratch copy next to a running check
GUARD = "wilfred_garden_verif"
RUSTFLAGS = f"--cfg {GUARD} --check-cfg cfg({GUARD})"

_built = {}


class BuildError(Exception):
    pass


def garden_bin(profile="debug"):
    """Build (incrementally) and return the path of the garden binary for /repo's working tree."""
    if profile in _built:
        return _built[profile]
    os.makedirs(CACHE, exist_ok=True)
    env = dict(os.environ, CARGO_NET_OFFLINE="true", CARGO_TARGET_DIR=TARGET, RUSTFLAGS=RUSTFLAGS)
    cmd = ["cargo", "build", "--offline", "--bin", "garden", "--quiet"]
    if profile == "release":
        cmd.append("--release")
    os.makedirs(TARGET, exist_ok=True)
    lock = open(os.path.join(TARGET, f"build-{profile}.lock"), "w")
    fcntl.flock(lock, fcntl.LOCK_EX)
    try:
        t = time.time()
        r = subprocess.run(cmd, cwd=REPO, env=env, capture_output=True, text=True, timeout=3600)
        if r.returncode != 0:
            raise BuildError(f"cargo build ({profile}) failed:\n{r.stderr[-3000:]}")
    finally:
        fcntl.flock(lock, fcntl.LOCK_UN)
        lock.close()
    p = os.path.join(TARGET, profile, "garden")
    _built[profile] = p
    return p


def die_with_parent():
    """preexec_fn: a helper process must not outlive a killed check (`garden json` spins on a closed stdin)."""
    try:
        import ctypes
        ctypes.CDLL("libc.so.6").prctl(1, 9)     # PR_SET_PDEATHSIG, SIGKILL
    except Exception:
        pass


MIN_RUN_TIMEOUT = float(os.environ.get("VERIF_NATIVE_MIN_TIMEOUT", "45")) + 15   # a loaded machine must not turn a slow start into a verdict


def run_c(src, profile="debug", timeout=20, stdin=None, args=("run", "-c")):
    """garden run -c <src>  -> (exit_code, stdout, stderr). exit 101 = Rust panic."""
    g = garden_bin(profile)
    try:
        r = subprocess.run([g, *args, src], capture_output=True, text=True, timeout=max(timeout, MIN_RUN_TIMEOUT),
                           stdin=subprocess.DEVNULL if stdin is None else None, input=stdin)
        return r.returncode, r.stdout, r.stderr
    except subprocess.TimeoutExpired as e:
        return -9, (e.stdout or b"").decode("utf-8", "replace") if isinstance(e.stdout, bytes) else (e.stdout or ""), "TIMEOUT"


def run_file(src, subcmd=("run",), profile="debug", timeout=20, suffix=".gdn", extra_args=()):
    import tempfile
    g = garden_bin(profile)
    with tempfile.NamedTemporaryFile("w", suffix=suffix, delete=False, dir="/var/tmp") as f:
        f.write(src)
        path = f.name
    try:
        try:
            r = subprocess.run([g, *subcmd, path, *extra_args], capture_output=True, text=True, timeout=max(timeout, MIN_RUN_TIMEOUT),
                               stdin=subprocess.DEVNULL)
            return r.returncode, r.stdout, r.stderr
        except subprocess.TimeoutExpired:
            return -9, "", "TIMEOUT"
    finally:
        os.unlink(path)


def run_file_bytes(data, subcmd=("check",), profile="debug", timeout=20, extra_args=()):
    import tempfile
    g = garden_bin(profile)
    with tempfile.NamedTemporaryFile("wb", suffix=".gdn", delete=False, dir="/var/tmp") as f:
        f.write(data)
        path = f.name
    try:
        try:
            r = subprocess.run([g, *subcmd, path, *extra_args], capture_output=True, timeout=max(timeout, MIN_RUN_TIMEOUT),
                               stdin=subprocess.DEVNULL)
            return r.returncode, r.stdout.decode("utf-8", "replace"), r.stderr.decode("utf-8", "replace")
        except subprocess.TimeoutExpired:
            return -9, "", "TIMEOUT"
    finally:
        os.unlink(path)


MIN_TIMEOUT = float(os.environ.get("VERIF_NATIVE_MIN_TIMEOUT", "45"))


class JsonSession:
    """A `garden json` child.  request() sends one framed request and returns
    (final_response_or_None, printed_text, all_raw_lines)."""

    def __init__(self, profile="debug", env_extra=None):
        g = garden_bin(profile)
        env = dict(os.environ)
        if env_extra:
            env.update(env_extra)
        self.p = subprocess.Popen([g, "json"], stdin=subprocess.PIPE, stdout=subprocess.PIPE,
                                  stderr=subprocess.PIPE, env=env, preexec_fn=die_with_parent)
        self.buf = b""
        self.ready = self._read_response(MIN_TIMEOUT + 15)

    def _read_line(self, timeout):
        end = time.time() + timeout
        while b"\n" not in self.buf:
            left = end - time.time()
            if left <= 0:
                return None
            r, _, _ = select.select([self.p.stdout], [], [], left)
            if not r:
                return None
            chunk = os.read(self.p.stdout.fileno(), 65536)
            if not chunk:
                return None
            self.buf += chunk
        line, self.buf = self.buf.split(b"\n", 1)
        return line.decode("utf-8", "replace")

    def _read_response(self, timeout):
        printed = []
        raw = []
        while True:
            line = self._read_line(timeout)
            if line is None:
                return None, "".join(printed), raw
            if not line.strip():
                continue
            raw.append(line)
            try:
                j = json.loads(line)
            except Exception:
                continue
            kind = j.get("kind", {})
            if isinstance(kind, dict) and ("printed" in kind or "printed_stderr" in kind):
                k = kind.get("printed") or kind.get("printed_stderr")
                printed.append(k.get("s", ""))
                continue
            return j, "".join(printed), raw

    def send(self, obj):
        body = json.dumps(obj).encode("utf-8")
        try:
            self.p.stdin.write(b"Content-Length: %d\n" % len(body) + body)
            self.p.stdin.flush()
            return True
        except (BrokenPipeError, OSError):
            return False

    def request(self, input_text, timeout=10, method="run", **extra):
        obj = {"method": method, "input": input_text}
        obj.update(extra)
        if not self.send(obj):
            return None, "", []
        # a response that is merely late (loaded machine) must never read as "no response": every answer after it
        # would be attributed to the wrong request.  A dead evaluation thread costs the full wait, once.
        return self._read_response(max(timeout, MIN_TIMEOUT))

    def alive(self):
        return self.p.poll() is None

    def close(self):
        try:
            self.p.stdin.close()
        except Exception:
            pass
        try:
            self.p.wait(timeout=2)
        except Exception:
            self.p.kill()
            self.p.wait()
        code = self.p.returncode
        try:
            err = self.p.stderr.read().decode("utf-8", "replace")
        except Exception:
            err = ""
        return code, err


def response_summary(j):
    """Reduce a JSON-session response to (tag, text) for comparisons."""
    if j is None:
        return ("none", "")
    kind = j.get("kind", {})
    if "evaluate" in kind:
        v = kind["evaluate"]["value"]
        if "Ok" in v:
            return ("ok", v["Ok"])
        errs = v.get("Err") or []
        if errs:
            e = errs[0]
            pos = e.get("position") or {}
            return ("err", e.get("message", ""), pos.get("start_offset"), pos.get("end_offset"))
        return ("err", "")
    if "run_command" in kind:
        return ("cmd", kind["run_command"]["message"])
    if "malformed_request" in kind:
        return ("malformed", kind["malformed_request"]["message"])
    if "interrupted" in kind:
        return ("interrupted", "")
    return ("other", json.dumps(kind)[:200])
